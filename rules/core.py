"""Check plumbing: rule-evaluation context, verdicts, evidence, known findings, replay files."""
import hashlib
import json
import os
import sys
import time

from . import facts

VERIF = facts.VERIF
EVID = os.environ.get("VERIF_EVIDENCE") or os.path.join(VERIF, "evidence")
REPLAY = os.path.join(EVID, "replay")
KNOWN = os.path.join(VERIF, "known_findings.json")

TRUSTED_BASE = [
    "rustc 1.97 nightly front end, type checker and MIR construction (facts are the MIR of today's /repo source, host cfg)",
    "Instance::try_resolve callee resolution; dyn/unresolved trait calls over-approximated to every workspace impl",
    "third-party crates are not analysed inside (serde, serde_json, rkyv check_bytes, rmp, semver Ord, lalrpop runtime, borsh, ed25519/fluence-keypair, cid/multihash, blake3, sha2)",
    "airlint fact extractor and the Python rule evaluators under /verif/rules and /verif/props",
]


class AnchorLost(Exception):
    """A function, call site or count the rule was confirmed on is gone: fail closed."""


def load_known():
    try:
        with open(KNOWN) as fh:
            return json.load(fh)
    except FileNotFoundError:
        return {"findings": [], "fixed": []}


class Ctx:
    def __init__(self, prop, tier, replay=None):
        self.prop = prop
        self.tier = tier
        self.t0 = time.time()
        self.seed = int(os.environ.get("VERIF_SEED", "0") or 0)
        self.obligations = 0
        self.discharged = 0
        self.evaluations = 0
        self.instances = {}     # rule instance id -> number of real sites bound
        self.samples = []
        self.violations = []    # (key, rule, msg, detail)
        self.known_hits = []
        self.notes = []
        self.analysed = {}
        self.clauses = []
        self.replay_filter = replay
        self._known = [k for k in load_known().get("findings", []) if k.get("property") == prop]
        self.configs = []
        self.config_override = os.environ.get("VERIF_CONFIG") or None
        self.thorough = {}

    # facts -----------------------------------------------------------------
    def facts(self, config="prod"):
        config = self.config_override or config
        F = facts.load(config)
        if config not in self.configs:
            self.configs.append(config)
            a = self.analysed.setdefault(config, {})
            a["crates"] = sorted(F.crates)
            a["functions"] = len(F.fns)
            a["call_sites"] = sum(len(f.calls) for f in F.fns.values())
            a["adts"] = len(F.adts)
            a["facts_dir"] = os.path.basename(F.dir)
        return F

    # bookkeeping -----------------------------------------------------------
    def clause(self, text):
        """Declare a structural clause being decided (goes into the evidence explanation)."""
        self.clauses.append(text)

    def ok(self, rule, instance, what, sample=None):
        """One obligation discharged on a real site."""
        self.obligations += 1
        self.discharged += 1
        self.evaluations += 1
        self.instances[rule + "/" + instance] = self.instances.get(rule + "/" + instance, 0) + 1
        if sample is not None or len(self.samples) < 40:
            s = {"rule": rule, "instance": instance, "holds": what}
            if sample:
                s.update(sample)
            if len(self.samples) < 60:
                self.samples.append(s)

    def examined(self, n=1):
        self.evaluations += n

    def violation(self, rule, key, msg, detail=None):
        """An obligation that failed. `key` must not contain line numbers."""
        self.obligations += 1
        self.evaluations += 1
        full = "%s:%s:%s" % (self.prop, rule, key)
        for k in self._known:
            if k.get("key") == full:
                self.known_hits.append((k, msg))
                return
        self.violations.append((full, rule, msg, detail or {}))

    def floor(self, rule, what, count, floor):
        """Fail closed when fewer instances matched than were confirmed by hand."""
        self.evaluations += 1
        if count < floor:
            self.violation(rule, "floor:" + what,
                           "anchor lost: %s matched %d site(s), confirmed floor is %d — the rule would pass vacuously"
                           % (what, count, floor), {"count": count, "floor": floor})
            return False
        return True

    def require(self, cond, rule, key, ok_msg, bad_msg, detail=None, sample=None):
        if cond:
            self.ok(rule, key, ok_msg, sample)
        else:
            self.violation(rule, key, bad_msg, detail)
        return cond

    # finish ----------------------------------------------------------------
    def finish(self, level_text):
        os.makedirs(REPLAY, exist_ok=True)
        out_lines = []
        nviol = 0
        for full, rule, msg, detail in self.violations:
            if self.replay_filter and full != self.replay_filter:
                continue
            nviol += 1
            h = hashlib.sha1(full.encode()).hexdigest()[:12]
            path = os.path.join(REPLAY, "%s-%s.json" % (self.prop, h))
            with open(path, "w") as fh:
                json.dump({"property": self.prop, "key": full, "rule": rule, "message": msg,
                           "detail": detail, "tier": self.tier}, fh, indent=1, default=str)
            out_lines.append("  %s: %s" % (full, msg))
            out_lines.append("VIOLATION property=%s replay=%s" % (self.prop, path))
        seen_known = set()
        for k, msg in self.known_hits:
            if k["key"] in seen_known:
                continue
            seen_known.add(k["key"])
            out_lines.append("KNOWN-FINDING: property=%s %s" % (self.prop, k.get("what_fails", msg)))
        nontrivial = sum(1 for v in self.instances.values() if v > 0)
        wall = time.time() - self.t0
        ev = {
            "property_id": self.prop,
            "tier": self.tier,
            "seed": self.seed,
            "level": "other",
            "coverage": {
                "explanation": level_text + " Clauses decided in this run: " + " | ".join(self.clauses),
                "evaluations": self.evaluations,
                "distinct_nontrivial": nontrivial,
                "rule": "one evaluation = one rule instance checked on one concrete site of /repo's MIR; "
                        "an instance is distinct by (rule, instance id) and non-trivial when it bound at least one real site "
                        "and discharged it (vacuous matches are violations by the floor rule)",
                "obligations": self.obligations,
                "discharged": self.discharged,
                "samples": self.samples[:40] or [{"note": "no obligations were discharged"}],
                "trusted_base": TRUSTED_BASE,
                "checker_cmd": "./check %s --tier %s" % (self.prop, self.tier),
                "analysed": self.analysed,
                "known_findings_reported": sorted(seen_known),
                "notes": self.notes,
                "thorough": self.thorough,
            },
            "assumptions": TRUSTED_BASE,
            "wall_s": round(wall, 2),
            "violations": nviol,
        }
        os.makedirs(EVID, exist_ok=True)
        tmp = os.path.join(EVID, ".%s.json.tmp%d" % (self.prop, os.getpid()))
        with open(tmp, "w") as fh:
            json.dump(ev, fh, indent=1, default=str)
        os.replace(tmp, os.path.join(EVID, "%s.json" % self.prop))
        for l in out_lines:
            print(l)
        print("%s tier=%s obligations=%d discharged=%d violations=%d known=%d wall=%.1fs"
              % (self.prop, self.tier, self.obligations, self.discharged, nviol, len(seen_known), wall))
        return 1 if nviol else 0
