"""Analysis library over the fact base: provenance expressions (def-use closure), comparison normal
form, guarded edges, `?`/match ok-edges, field-writer census, bounded path enumeration with
discriminant/boolean constant propagation (for decision tables)."""
from .facts import Fn, op_place, rv_operands, norm
from .core import AnchorLost

# ------------------------------------------------------------------------------------------------
# Idioms: callees that are value-transparent for provenance purposes (frozen list, see DESIGN §2.2)
TRANSPARENT_SUFFIX = (
    "core::clone::Clone>::clone",
    "core::ops::deref::Deref>::deref",
    "core::ops::deref::DerefMut>::deref_mut",
    "core::convert::Into<U>>::into",
    "core::convert::Into<T>>::into",
    "core::convert::From<T>>::from",
    "core::borrow::Borrow<T>>::borrow",
    "core::convert::AsRef<T>>::as_ref",
    "core::convert::AsRef<U>>::as_ref",
    "alloc::borrow::ToOwned>::to_owned",
    "core::iter::traits::collect::IntoIterator>::into_iter",
    "alloc::rc::Rc::new",
    "alloc::boxed::Box::new",
    "core::convert::Into::into",
    "core::convert::From::from",
    "core::clone::Clone::clone",
    "core::convert::identity",
    "core::ops::try_trait::FromResidual<core::result::Result<core::convert::Infallible, E>>>::from_residual",
)
TRANSPARENT_EXACT = (
    "alloc::string::String::as_str",
    "alloc::vec::Vec<T, A>::as_slice",
    "alloc::rc::Rc<T, A>::as_ref",
    "core::str::<impl str>::as_bytes",
)


def is_transparent(path):
    return path.endswith(TRANSPARENT_SUFFIX) or path in TRANSPARENT_EXACT or path.endswith("::clone")


# adaptors that keep the Ok/Some-ness of their receiver (only the error side is transformed)
OK_PRESERVING = ("core::result::Result::map_err", "core::option::Option::ok_or", "core::option::Option::ok_or_else")


LOGGING_OUTER = ("attribute macro:tracing::instrument", "macro:tracing::", "macro:log::", "macro:log_instruction",
                 "macro:crate::log_instruction", "macro:$crate::log_instruction")


def is_logging_expansion(ex):
    """The outermost macro of the expansion chain is a logging / tracing macro (or measure!'s own span plumbing)."""
    names = [e for e in (ex or ()) if not e.startswith("desugar:")]
    if not names:
        return False
    outer = names[-1]
    if outer == "macro:measure":
        return any("tracing::span" in e or "$crate::span" in e or "level_enabled" in e for e in names[:-1])
    return outer.startswith(LOGGING_OUTER)


def is_try_branch(path):
    return path.endswith("core::ops::try_trait::Try>::branch")


def is_from_residual(path):
    return "core::ops::try_trait::FromResidual<" in path and path.endswith("::from_residual")


# ------------------------------------------------------------------------------------------------
# Provenance expressions

class Prov:
    """Flow-insensitive def-use closure inside one function, rendered as expression trees.

    ('param', name, index) ('const', display, value) ('field', base, name) ('as', base, variant)
    ('call', path, [args], Call) ('bin', op, a, b) ('un', op, a) ('cast', to, a) ('agg', adt, variant, {f: e})
    ('tuple', [e]) ('closure', id, [e]) ('phi', [e]) ('discr', e) ('index', base, idx) ('ok', e) ('unknown', why)
    ('upvar', name)  -- closure capture
    """

    def __init__(self, fn: Fn, max_depth=24, parent=None, F=None, inline=0, _stack=()):
        self.fn = fn
        self.max_depth = max_depth
        self.parent = parent          # Prov of the enclosing function (closures): captured variables resolve through it
        self.F = F                    # fact base: enables bounded inlining of small workspace callees
        self.inline = inline          # inlining bound (call depth); 0 = intraprocedural
        self._stack = _stack + (fn.id,)
        self.defs = {}
        self.partial = {}
        for bi, si, s in fn.stmts():
            lhs = s["lhs"]
            if not lhs["p"]:
                self.defs.setdefault(lhs["l"], []).append(("stmt", bi, si, s["rv"]))
            else:
                self.partial.setdefault(lhs["l"], []).append((lhs["p"], bi, si, s["rv"]))
        for c in fn.calls:
            d = c.dest
            if not d["p"]:
                self.defs.setdefault(d["l"], []).append(("call", c.bb, None, c))
            else:
                self.partial.setdefault(d["l"], []).append((d["p"], c.bb, None, c))
        self._memo = {}
        # closure upvar names: places rooted at _1 with projections
        self.upvars = {}
        if fn.kind == "Closure":
            for name, place in fn.name_places:
                if place["l"] == 1 and place["p"]:
                    key = tuple(_pkey(e) for e in place["p"] if e != "*")
                    self.upvars[key] = name

    # -- public
    def operand(self, op, depth=0, seen=frozenset()):
        if "const" in op:
            c = op["const"]
            if "fn" in c:
                return ("fnref", norm(c["fn"]["path"]))
            if "static" in c:
                return ("static", c["static"])
            if "promoted" in c:
                pcs = c.get("pconsts") or []
                if len(pcs) == 1:
                    inner = pcs[0]
                    d = inner["d"]
                    if "def" in inner and not d.startswith("<"):
                        d = inner["def"]
                    return ("const", d, inner.get("v"))
                return ("const", "promoted:" + c["ty"], None)
            d = c["d"]
            if "def" in c and not d.startswith("<"):
                d = c["def"]
            return ("const", d, c.get("v"))
        p = op_place(op)
        if p is None:
            return ("unknown", "runtime-check")
        return self.place(p, depth, seen)

    def place(self, p, depth=0, seen=frozenset()):
        if self.fn.kind == "Closure" and p["l"] == 1 and p["p"]:
            key = tuple(_pkey(e) for e in p["p"] if e != "*")
            for n in range(len(key), 0, -1):
                if key[:n] in self.upvars:
                    base = self._captured(self.upvars[key[:n]])
                    rest = [e for e in p["p"] if e != "*"][n:]
                    return self._project(base, rest, depth, seen)
        # a partially-assigned aggregate: `_5.0 = x`
        if p["p"] and p["p"][0] != "*" and p["l"] in self.partial:
            for proj, bi, si, rv in self.partial[p["l"]]:
                if _same_proj(proj, p["p"][:len(proj)]):
                    base = self._rv(rv, depth + 1, seen) if not hasattr(rv, "path") else self._call(rv, depth + 1, seen)
                    return self._project(base, p["p"][len(proj):], depth, seen)
        base = self.local(p["l"], depth, seen)
        return self._project(base, p["p"], depth, seen)

    def _captured(self, name):
        """A closure's captured variable: the enclosing function's value of that variable when the enclosing Prov is
        known (so a loop body moved into a closure has the same provenance as before), else an opaque ('upvar', name)."""
        if self.parent is not None:
            e = self.parent.by_name(name)
            if e is not None:
                return e
        return ("upvar", name)

    def by_name(self, name):
        """Provenance of the source-level variable `name` of this function (all its bindings joined)."""
        if self.fn.kind == "Closure" and name in self.upvars.values():
            return self._captured(name)
        ls = sorted(l for l, n in self.fn.names.items() if n == name)
        if not ls:
            return None
        es = []
        for l in ls:
            e = self.local(l)
            if e not in es:
                es.append(e)
        return es[0] if len(es) == 1 else ("phi", es)

    def local(self, l, depth=0, seen=frozenset()):
        if l in seen or depth > self.max_depth:
            return ("unknown", "cycle")
        if 1 <= l <= self.fn.argc and l not in self.defs:
            return ("param", self.fn.local_name(l), l)
        key = l
        if key in self._memo:
            return self._memo[key]
        ds = self.defs.get(l)
        if not ds:
            if 1 <= l <= self.fn.argc:
                return ("param", self.fn.local_name(l), l)
            return ("unknown", "undef:_%d" % l)
        seen2 = seen | {l}
        outs = []
        for kind, bi, si, x in ds:
            e = self._call(x, depth + 1, seen2) if kind == "call" else self._rv(x, depth + 1, seen2)
            if e not in outs:
                outs.append(e)
        if 1 <= l <= self.fn.argc:
            outs.insert(0, ("param", self.fn.local_name(l), l))
        r = outs[0] if len(outs) == 1 else ("phi", outs)
        if not _has_cycle_marker(r):
            self._memo[key] = r
        return r

    # -- internals
    def _project(self, base, projs, depth, seen):
        e = base
        for pr in projs:
            if pr == "*":
                continue
            if isinstance(pr, dict):
                if "f" in pr:
                    e = _field(e, pr["f"])
                elif "dc" in pr:
                    e = ("as", e, pr["dc"])
                elif "ix" in pr:
                    e = ("index", e, self.local(pr["ix"], depth + 1, seen))
                elif "cix" in pr:
                    e = ("index", e, ("const", ("-" if pr["fe"] else "") + str(pr["cix"]), str(pr["cix"])))
                else:
                    e = ("index", e, ("unknown", "subslice"))
            else:
                e = ("unknown", "proj")
        return e

    def _rv(self, rv, depth, seen):
        k = rv["k"]
        if k == "use":
            return self.operand(rv["op"], depth, seen)
        if k in ("ref", "rawptr"):
            return self.place(rv["place"], depth, seen)
        if k == "cast":
            inner = self.operand(rv["op"], depth, seen)
            if rv["kind"].startswith("Coerce") or rv["kind"] in ("PtrToPtr", "Transmute"):
                return inner
            return ("cast", rv["to"], inner)
        if k == "bin":
            return ("bin", rv["op"], self.operand(rv["a"], depth, seen), self.operand(rv["b"], depth, seen))
        if k == "un":
            return ("un", rv["op"], self.operand(rv["a"], depth, seen))
        if k == "discr":
            return ("discr", self.place(rv["place"], depth, seen))
        if k == "agg":
            ops = [self.operand(o, depth, seen) for o in rv["ops"]]
            kind = rv.get("kind")
            if kind == "adt":
                return ("agg", rv["adt"], rv["variant"], dict(zip(rv["fields"], ops)))
            if kind == "tuple":
                return ("tuple", ops)
            if kind == "closure":
                return ("closure", rv["cid"], ops)
            return ("array", ops)
        if k == "repeat":
            return ("array", [self.operand(rv["op"], depth, seen)])
        return ("unknown", "rvalue")

    def _call(self, c, depth, seen):
        args = [self.operand(a, depth, seen) for a in c.args]
        if is_transparent(c.path) and len(args) >= 1:
            return args[0]
        if is_try_branch(c.path):
            return ("try", args[0])
        if self.inline > 0 and self.F is not None:
            callee = self.F.fns.get(c.cid)
            if callee is not None and callee.kind != "Closure" and callee.id not in self._stack and len(callee.blocks) <= INLINE_MAX_BLOCKS \
                    and callee.argc == len(args):
                body = Prov(callee, self.max_depth, F=self.F, inline=self.inline - 1, _stack=self._stack).local(0)
                # the call node keeps its identity (rules naming the helper still match); the 5th element is the helper's
                # result expression with its parameters replaced by the actual arguments (rules naming what the helper
                # calls match as well) — so a rule holds whether or not a thin helper sits in between
                return ("call", c.path, args, c, subst_params(body, args))
        return ("call", c.path, args, c)


INLINE_MAX_BLOCKS = 80


def subst_params(e, args):
    """Replace ('param', name, i) leaves of a callee's expression by the caller's argument expressions."""
    if not isinstance(e, tuple):
        return e
    if e[0] == "param" and isinstance(e[2], int) and 1 <= e[2] <= len(args):
        return args[e[2] - 1]
    out = []
    for x in e:
        if isinstance(x, tuple):
            out.append(subst_params(x, args))
        elif isinstance(x, list):
            out.append([subst_params(y, args) if isinstance(y, tuple) else y for y in x])
        elif isinstance(x, dict):
            out.append({k: (subst_params(v, args) if isinstance(v, tuple) else v) for k, v in x.items()})
        else:
            out.append(x)
    return tuple(out)


def _pkey(e):
    if isinstance(e, dict):
        if "f" in e:
            return ("f", e["i"])
        if "dc" in e:
            return ("dc", e["dc"])
        return ("x", str(e))
    return ("s", e)


def _same_proj(a, b):
    return [_pkey(x) for x in a] == [_pkey(x) for x in b]


def _has_cycle_marker(e):
    if not isinstance(e, tuple):
        return False
    if e[0] == "unknown" and e[1] == "cycle":
        return True
    for x in e[1:]:
        if isinstance(x, tuple) and _has_cycle_marker(x):
            return True
        if isinstance(x, list) and any(_has_cycle_marker(y) for y in x):
            return True
        if isinstance(x, dict) and any(_has_cycle_marker(y) for y in x.values()):
            return True
    return False


def _field(e, name):
    # field of a known aggregate resolves to the component
    if e[0] == "agg" and name in e[3]:
        return e[3][name]
    if e[0] == "tuple" and name.isdigit() and int(name) < len(e[1]):
        return e[1][int(name)]
    if e[0] == "as" and e[1][0] == "try" and e[2] == "Continue" and name == "0":
        return ("ok", e[1][1])
    if e[0] == "as" and e[1][0] == "try" and e[2] == "Break" and name == "0":
        return ("err", e[1][1])
    if e[0] == "as" and e[2] in ("Ok", "Some") and name == "0" and e[1][0] != "agg":
        return ("ok", e[1])
    if e[0] == "as" and e[2] == "Err" and name == "0" and e[1][0] != "agg":
        return ("err", e[1])
    if e[0] == "as" and e[1][0] == "agg" and e[1][2] == e[2] and name in e[1][3]:
        return e[1][3][name]
    if e[0] == "phi":
        outs = []
        for x in e[1]:
            y = _field(x, name)
            if y not in outs:
                outs.append(y)
        return outs[0] if len(outs) == 1 else ("phi", outs)
    return ("field", e, name)


def show(e, short=True):
    """Readable rendering of a provenance expression."""
    t = e[0]
    if t == "param":
        return e[1]
    if t == "upvar":
        return "^" + e[1]
    if t == "const":
        return str(e[1])
    if t == "fnref":
        return "fn:" + _short(e[1])
    if t == "static":
        return "static:" + _short(e[1])
    if t == "field":
        return show(e[1]) + "." + e[2]
    if t == "as":
        return "(%s as %s)" % (show(e[1]), e[2])
    if t == "call":
        return "%s(%s)" % (_short(e[1]) if short else e[1], ", ".join(show(a) for a in e[2]))
    if t == "bin":
        return "%s(%s, %s)" % (e[1], show(e[2]), show(e[3]))
    if t == "un":
        return "%s(%s)" % (e[1], show(e[2]))
    if t == "cast":
        return "(%s as %s)" % (show(e[2]), e[1])
    if t == "agg":
        return "%s::%s{%s}" % (_short(e[1]), e[2], ", ".join("%s: %s" % (k, show(v)) for k, v in e[3].items()))
    if t == "tuple":
        return "(%s)" % ", ".join(show(x) for x in e[1])
    if t == "array":
        return "[%s]" % ", ".join(show(x) for x in e[1])
    if t == "closure":
        return "closure<%s>(%s)" % (_short(e[1]), ", ".join(show(x) for x in e[2]))
    if t == "phi":
        return "phi(%s)" % " | ".join(show(x) for x in e[1])
    if t == "discr":
        return "discr(%s)" % show(e[1])
    if t == "index":
        return "%s[%s]" % (show(e[1]), show(e[2]))
    if t in ("ok", "err", "try"):
        return "%s(%s)" % (t, show(e[1]))
    return "?%s" % (e[1] if len(e) > 1 else "")


def _short(path):
    # last two path segments, generic noise removed
    p = path
    if p.startswith("<") and " as " in p:
        # <T as Trait>::method
        head, _, meth = p.rpartition("::")
        inner = head[1:-1] if head.endswith(">") else head
        ty, _, tr = inner.partition(" as ")
        return "<%s as %s>::%s" % (ty.split("::")[-1], tr.split("::")[-1], meth)
    segs = p.split("::")
    return "::".join(segs[-2:]) if len(segs) >= 2 else p


def walk(e):
    """All sub-expressions (pre-order)."""
    yield e
    for x in e[1:]:
        if isinstance(x, tuple):
            yield from walk(x)
        elif isinstance(x, list):
            for y in x:
                if isinstance(y, tuple):
                    yield from walk(y)
        elif isinstance(x, dict):
            for y in x.values():
                if isinstance(y, tuple):
                    yield from walk(y)


def leaves(e):
    """Value sources of an expression: params, upvars, consts, non-transparent calls, unknowns."""
    out = []
    for s in walk(e):
        if s[0] in ("param", "upvar", "const", "unknown", "fnref", "static"):
            out.append(s)
    return out


def mentions_param(e, name):
    return any(s[0] in ("param", "upvar") and s[1] == name for s in walk(e))


def mentions_call(e, suffix):
    return any(s[0] == "call" and s[1].endswith(suffix) for s in walk(e))


def mentions_field(e, fname):
    return any(s[0] == "field" and s[2] == fname for s in walk(e))


def strip(e):
    """Peel wrappers that do not change which value it is: ok()/try()/casts are kept by the caller's choice."""
    while e[0] in ("ok", "try"):
        e = e[1]
    return e


# ------------------------------------------------------------------------------------------------
# Comparison normal form and branch conditions

_REL = {"Lt": "<", "Le": "<=", "Gt": ">", "Ge": ">=", "Eq": "==", "Ne": "!="}
_SWAP = {"<": ">", "<=": ">=", ">": "<", ">=": "<=", "==": "==", "!=": "!="}
_NEG = {"<": ">=", "<=": ">", ">": "<=", ">=": "<", "==": "!=", "!=": "=="}
_CMP_CALL = (("::lt", "<"), ("::le", "<="), ("::gt", ">"), ("::ge", ">="), ("::eq", "=="), ("::ne", "!="))


def cond_of(prov: Prov, e):
    """Normalise a boolean expression to (rel, lhs, rhs) or ('bool', e) / ('call', path, args), with polarity.
    Returns (positive: bool, form)."""
    pos = True
    while True:
        if e[0] == "un" and e[1] == "Not":
            pos = not pos
            e = e[2]
            continue
        break
    if e[0] == "bin" and e[1] in _REL:
        return pos, (_REL[e[1]], e[2], e[3])
    if e[0] == "call" and ("core::cmp::PartialOrd" in e[1] or "core::cmp::PartialEq" in e[1]
                           or "core::cmp::impls::" in e[1]) and len(e[2]) == 2:
        for suf, rel in _CMP_CALL:
            if e[1].endswith(suf):
                return pos, (rel, e[2][0], e[2][1])
    return pos, ("bool", e)


def rel_holds_on_edge(form, pos, taken_true):
    """The relation that is known to hold when the branch is taken with value `taken_true`."""
    if form[0] == "bool":
        return ("bool", form[1], pos == taken_true)
    rel, a, b = form
    if pos != taken_true:
        rel = _NEG[rel]
    return (rel, a, b)


def canon_rel(r):
    """Orient so that '<'/'<=' are used (a > b  ==  b < a)."""
    if r[0] in (">", ">="):
        return (_SWAP[r[0]], r[2], r[1])
    return r


class Branch:
    """A two-way branch on a boolean at the end of block bb."""

    def __init__(self, fn, prov, bb):
        t = fn.blocks[bb]["term"]
        assert t["k"] == "switch"
        self.fn = fn
        self.bb = bb
        self.expr = prov.operand(t["discr"])
        self.is_bool = t["dty"] == "bool"
        self.targets = {v: b for v, b in t["targets"]}
        self.otherwise = t["otherwise"]
        if self.is_bool:
            # switchInt(b) [0 -> F] otherwise T
            self.false_bb = self.targets.get("0", None)
            self.true_bb = self.otherwise if "0" in self.targets else self.targets.get("1")
            if self.false_bb is None:
                self.false_bb = self.otherwise
            self.pos, self.form = cond_of(prov, self.expr)

    def holds_on(self, target_bb):
        """Normalised relation known on the edge bb -> target_bb (None if both edges go there)."""
        if not self.is_bool or self.true_bb == self.false_bb:
            return None
        if target_bb == self.true_bb:
            return canon_rel(rel_holds_on_edge(self.form, self.pos, True))
        if target_bb == self.false_bb:
            return canon_rel(rel_holds_on_edge(self.form, self.pos, False))
        return None


def bool_branches(fn, prov=None):
    prov = prov or Prov(fn)
    out = []
    for i, b in enumerate(fn.blocks):
        if b["cleanup"]:
            continue
        t = b["term"]
        if t["k"] == "switch" and t["dty"] == "bool":
            out.append(Branch(fn, prov, i))
    return out


def guards_of(fn, bb, prov=None):
    """All boolean relations that hold on every path to block bb: for each bool branch whose one
    successor dominates bb while the other does not reach bb without passing the first."""
    prov = prov or Prov(fn)
    out = []
    for br in bool_branches(fn, prov):
        for tgt in (br.true_bb, br.false_bb):
            if tgt is None or br.true_bb == br.false_bb:
                continue
            other = br.false_bb if tgt == br.true_bb else br.true_bb
            if edge_dominates(fn, br.bb, tgt, other, bb):
                out.append((br, br.holds_on(tgt)))
    return out


def edge_dominates(fn, src, tgt, other, site):
    """Edge src->tgt must be taken on every path to `site`: site is reachable, and not reachable once
    that edge is removed (approximated: tgt dominates site, tgt's only way in is via src... we use
    the robust formulation: removing edge (src,tgt) makes site unreachable from entry)."""
    if site not in fn.reach_from(0):
        return False
    # reachability without the edge
    seen = set()
    st = [0]
    while st:
        b = st.pop()
        if b in seen:
            continue
        seen.add(b)
        for n in fn.succ[b]:
            if b == src and n == tgt:
                # the edge might be duplicated by `other` going to same block
                continue
            if n not in seen:
                st.append(n)
    return site not in seen


# ------------------------------------------------------------------------------------------------
# `?` / match ok-edges of a fallible call

def result_edges(fn, call):
    """For a call returning Result/Option whose value is inspected, return dict variant-> block:
    handles `call(..)?` (Try::branch + switch) and `match call(..) {..}` (discriminant switch).
    Keys: 'ok'/'err' (Continue/Break, Ok/Err, Some/None mapped to ok/err)."""
    dest = call.dest
    if dest["p"]:
        return {}
    l = dest["l"]
    cur_bb = call.target
    if cur_bb < 0:
        return {}
    # follow straight-line code: moves of l, Try::branch(l)
    aliases = {l}
    bb = cur_bb
    for _ in range(12):
        b = fn.blocks[bb]
        for s in b["stmts"]:
            if "lhs" not in s:
                continue
            rv = s["rv"]
            if rv["k"] == "use":
                p = op_place(rv["op"])
                if p and p["l"] in aliases and not p["p"] and not s["lhs"]["p"]:
                    aliases.add(s["lhs"]["l"])
            if rv["k"] == "ref" and rv["place"]["l"] in aliases and not rv["place"]["p"] and not s["lhs"]["p"]:
                aliases.add(s["lhs"]["l"])
            if rv["k"] == "discr" and rv["place"]["l"] in aliases and not [x for x in rv["place"]["p"] if x != "*"]:
                dl = s["lhs"]["l"]
                t = b["term"]
                if t["k"] == "switch" and op_place(t["discr"]) and op_place(t["discr"])["l"] == dl:
                    names = rv["vars"]
                    out = {}
                    for v, tb in t["targets"]:
                        nm = names.get(v)
                        if nm in ("Continue", "Ok", "Some"):
                            out["ok"] = tb
                        elif nm in ("Break", "Err", "None"):
                            out["err"] = tb
                    # `otherwise` carries the remaining variant when only one is listed
                    listed = {names.get(v) for v, _ in t["targets"]}
                    rest = [n for n in names.values() if n not in listed]
                    if len(rest) == 1 and not _is_unreachable(fn, t["otherwise"]):
                        nm = rest[0]
                        out["ok" if nm in ("Continue", "Ok", "Some") else "err"] = t["otherwise"]
                    return out
        t = b["term"]
        if t["k"] == "call":
            c = t["callee"]["path"]
            args_l = [op_place(a)["l"] for a in t["args"] if op_place(a) and not op_place(a)["p"]]
            if (is_try_branch(norm(c)) or is_transparent(norm(c)) or norm(c).endswith(OK_PRESERVING)) and args_l and args_l[0] in aliases and not t["dest"]["p"]:
                aliases.add(t["dest"]["l"])
                bb = t["t"]
                if bb < 0:
                    return {}
                continue
            return {}
        if t["k"] == "goto":
            bb = t["t"]
            continue
        if t["k"] == "drop":
            bb = t["t"]
            continue
        return {}
    return {}


def _is_unreachable(fn, bb):
    return fn.blocks[bb]["term"]["k"] == "unreachable"


def guarded_by_ok(fn, call, site_bb):
    """site is only reachable after `call` returned Ok/Some/Continue."""
    e = result_edges(fn, call)
    ok = e.get("ok")
    if ok is None:
        return False
    return fn.dominates(ok, site_bb) and fn.dominates(call.bb, ok)


def err_propagates(fn, call):
    """The Err edge of call(..)? leads to return without passing further non-cleanup calls other than
    from_residual / drops (i.e. the error is propagated, not swallowed)."""
    e = result_edges(fn, call)
    err = e.get("err")
    if err is None:
        # tail position: the call's value is (one of) the function's return value(s), unchanged
        r = Prov(fn).local(0)
        alts = r[1] if r[0] == "phi" else [r]
        return any(a[0] == "call" and a[3] is call for a in alts)
    seen = fn.reach_from(err)
    for b in seen:
        t = fn.blocks[b]["term"]
        if t["k"] == "call" and not (is_from_residual(t["callee"]["path"]) or is_transparent(t["callee"]["path"])):
            return False
    return any(b in seen for b in fn.returns)


# ------------------------------------------------------------------------------------------------
# Field access census

def place_fields(p):
    """[(adt, field)] along a place's projections."""
    out = []
    for e in p["p"]:
        if isinstance(e, dict) and "f" in e and e.get("on") not in ("tuple", "closure", "?"):
            out.append((e["on"], e["f"]))
    return out


def field_accesses(F, adt_suffix, field):
    """Every syntactic access to field `field` of ADT `adt_suffix` in the workspace:
    yields (fn, bb, kind, detail) with kind in read / write / mutborrow / move / call-dest."""
    def hit(p):
        fs = place_fields(p)
        for i, (a, f) in enumerate(fs):
            if f == field and (a == adt_suffix or a.endswith("::" + adt_suffix)):
                return i == len(fs) - 1, True
        return False, False

    for fn in F.fns.values():
        for bi, si, s in fn.stmts():
            last, any_ = hit(s["lhs"])
            if any_:
                yield fn, bi, "write", s
            rv = s["rv"]
            if rv["k"] in ("ref", "rawptr"):
                _, a = hit(rv["place"])
                if a:
                    yield fn, bi, ("mutborrow" if rv["mut"] else "read"), s
            elif rv["k"] == "discr":
                _, a = hit(rv["place"])
                if a:
                    yield fn, bi, "read", s
            else:
                for o in rv_operands(rv):
                    p = op_place(o)
                    if p:
                        _, a = hit(p)
                        if a:
                            yield fn, bi, ("move" if "move" in o else "read"), s
        for c in fn.calls:
            _, a = hit(c.dest)
            if a:
                yield fn, c.bb, "write", c
            for o in c.args:
                p = op_place(o)
                if p:
                    _, a2 = hit(p)
                    if a2:
                        yield fn, c.bb, ("move" if "move" in o else "read"), c


# ------------------------------------------------------------------------------------------------
# Bounded path enumeration with constant propagation of booleans and enum discriminants.
# Used for decision tables of small loop-free functions.

class PathState:
    __slots__ = ("consts", "variants", "blocks", "calls", "conds")

    def __init__(self):
        self.consts = {}     # local -> int value (bool flags / discriminants)
        self.variants = {}   # place key -> variant name
        self.blocks = []
        self.calls = []
        self.conds = []      # (Branch expr shown, taken_true)

    def copy(self):
        n = PathState()
        n.consts = dict(self.consts)
        n.variants = dict(self.variants)
        n.blocks = list(self.blocks)
        n.calls = list(self.calls)
        n.conds = list(self.conds)
        return n


def place_key(p):
    return (p["l"], tuple(_pkey(e) for e in p["p"] if e != "*"))


def enumerate_paths(fn, prov=None, start=0, init=None, max_paths=4000, max_visits=2):
    """All normal paths start..return with feasibility pruning on (a) boolean locals with constant
    values (drop flags), (b) enum discriminants already decided on the path.  Loop blocks may be
    visited at most `max_visits` times per path."""
    prov = prov or Prov(fn)
    results = []
    stack = [(start, init or PathState())]
    while stack:
        bb, st = stack.pop()
        if len(results) > max_paths:
            raise AnchorLost("path explosion in %s" % fn.path)
        if st.blocks.count(bb) >= max_visits:
            continue
        st.blocks.append(bb)
        b = fn.blocks[bb]
        discr_of = {}
        for s in b["stmts"]:
            if "lhs" not in s:
                continue
            lhs, rv = s["lhs"], s["rv"]
            if lhs["p"]:
                continue
            l = lhs["l"]
            st.consts.pop(l, None)
            if rv["k"] == "use" and "const" in rv["op"] and rv["op"]["const"].get("v") is not None:
                try:
                    st.consts[l] = int(rv["op"]["const"]["v"])
                except ValueError:
                    pass
            elif rv["k"] == "use" and op_place(rv["op"]) and not op_place(rv["op"])["p"] and op_place(rv["op"])["l"] in st.consts:
                st.consts[l] = st.consts[op_place(rv["op"])["l"]]
            elif rv["k"] == "discr":
                discr_of[l] = (place_key(rv["place"]), rv["vars"], rv)
            elif rv["k"] == "agg" and rv.get("kind") == "adt":
                st.variants[(l, ())] = rv["variant"]
            if rv["k"] == "use" and op_place(rv["op"]) is not None:
                # a move/copy carries the known variant of its source along
                src = place_key(op_place(rv["op"]))
                st.variants.pop((l, ()), None)
                if src in st.variants and rv["k"] == "use":
                    st.variants[(l, ())] = st.variants[src]
            elif rv["k"] != "agg":
                st.variants.pop((l, ()), None)
        t = b["term"]
        k = t["k"]
        if k == "return":
            results.append(st)
            continue
        if k == "call":
            c = next(cc for cc in fn.calls if cc.bb == bb)
            st.calls.append(c)
            if not t["dest"]["p"]:
                st.consts.pop(t["dest"]["l"], None)
                st.variants.pop((t["dest"]["l"], ()), None)
                if is_try_branch(c.path) and c.args and op_place(c.args[0]) is not None:
                    src = place_key(op_place(c.args[0]))
                    v = st.variants.get(src)
                    if v in ("Ok", "Some"):
                        st.variants[(t["dest"]["l"], ())] = "Continue"
                    elif v in ("Err", "None"):
                        st.variants[(t["dest"]["l"], ())] = "Break"
            if t["t"] >= 0:
                stack.append((t["t"], st))
            continue
        if k in ("goto", "drop", "assert"):
            stack.append((t["t"], st))
            continue
        if k == "switch":
            dp = op_place(t["discr"])
            dl = dp["l"] if dp and not dp["p"] else None
            targets = t["targets"]
            if is_logging_expansion(t.get("ex", ())):
                # branch inserted by log!/tracing macros (level checks, span construction): both sides only log
                # and re-join; follow the disabled side so instrumentation does not multiply paths
                tb = dict((a, b_) for a, b_ in targets).get("0", t["otherwise"])
                stack.append((tb, st))
                continue
            if dl is not None and dl in st.consts:
                v = str(st.consts[dl])
                tb = dict((a, b_) for a, b_ in targets).get(v, t["otherwise"])
                stack.append((tb, st))
                continue
            if dl is not None and dl in discr_of:
                pk, names, rv = discr_of[dl]
                if pk in st.variants:
                    want = st.variants[pk]
                    val = [v for v, n in names.items() if n == want]
                    tb = dict((a, b_) for a, b_ in targets).get(val[0] if val else None, t["otherwise"])
                    stack.append((tb, st))
                    continue
                listed = set()
                for v, tb in targets:
                    n = names.get(v, v)
                    listed.add(n)
                    s2 = st.copy()
                    s2.variants[pk] = n
                    stack.append((tb, s2))
                rest = [n for n in names.values() if n not in listed]
                if not _is_unreachable(fn, t["otherwise"]):
                    for n in rest:
                        s2 = st.copy()
                        s2.variants[pk] = n
                        stack.append((t["otherwise"], s2))
                continue
            if t["dty"] == "bool":
                br = Branch(fn, prov, bb)
                for tb, val in ((br.true_bb, True), (br.false_bb, False)):
                    if tb is None:
                        continue
                    s2 = st.copy()
                    s2.conds.append((br, val))
                    if dl is not None:
                        s2.consts[dl] = 1 if val else 0
                    stack.append((tb, s2))
                continue
            # integer switch on something else: explore all
            seen_t = set()
            for v, tb in targets:
                if tb in seen_t:
                    continue
                seen_t.add(tb)
                s2 = st.copy()
                s2.conds.append(("int", v))
                stack.append((tb, s2))
            if t["otherwise"] not in seen_t and not _is_unreachable(fn, t["otherwise"]):
                stack.append((t["otherwise"], st.copy()))
            continue
        # unreachable / resume / other: path ends without return
    return results


def variant_of(st, fn, param_name_or_local, projs=()):
    """Variant recorded on a path for a parameter (by name) or local."""
    l = param_name_or_local
    if isinstance(l, str):
        for i in range(1, fn.argc + 1):
            if fn.local_name(i) == l:
                l = i
                break
    return st.variants.get((l, tuple(projs)))


def path_result(fn, st):
    """'Ok' / 'Err' / None: which Result variant the path stored into _0 last (from_residual counts as Err)."""
    res = None
    for bb in st.blocks:
        b = fn.blocks[bb]
        for s in b["stmts"]:
            if "lhs" in s and s["lhs"]["l"] == 0 and not s["lhs"]["p"]:
                rv = s["rv"]
                if rv["k"] == "agg" and rv.get("kind") == "adt" and rv["variant"] in ("Ok", "Err", "Some", "None"):
                    res = "Ok" if rv["variant"] in ("Ok", "Some") else "Err"
                else:
                    res = "?"
        t = b["term"]
        if t["k"] == "call" and t["dest"]["l"] == 0 and not t["dest"]["p"]:
            res = "Err" if is_from_residual(t["callee"]["path"]) else "call:" + norm(t["callee"]["path"])
    return res


def path_calls(st, *suffixes):
    return [c for c in st.calls if c.path.endswith(tuple(suffixes))]


def const_bool_result(fn):
    """For a tiny fn returning an aggregate / bool built from constants: provenance of _0."""
    return Prov(fn).local(0)


class PathProv(Prov):
    """Provenance restricted to one CFG path: for every local only its last definition along the
    path is visible (reaching definitions on that path).  No values are computed; expressions are
    the same trees as in Prov."""

    def __init__(self, fn, blocks, max_depth=24):
        super().__init__(fn, max_depth)
        order = {}
        for i, b in enumerate(blocks):
            order[b] = i          # last visit wins
        onpath = set(blocks)
        nd = {}
        for l, ds in self.defs.items():
            best = None
            for d in ds:
                bi = d[1]
                if bi not in onpath:
                    continue
                key = (order[bi], d[2] if d[2] is not None else 10 ** 6)
                if best is None or key > best[0]:
                    best = (key, d)
            if best:
                nd[l] = [best[1]]
        self.defs = nd
        npart = {}
        for l, ps in self.partial.items():
            keep = [x for x in ps if x[1] in onpath]
            if keep:
                npart[l] = keep
        self.partial = npart
        self._memo = {}

    def local(self, l, depth=0, seen=frozenset()):
        if 1 <= l <= self.fn.argc and l not in self.defs:
            return ("param", self.fn.local_name(l), l)
        if l in seen or depth > self.max_depth:
            return ("unknown", "cycle")
        ds = self.defs.get(l)
        if not ds:
            return ("unknown", "undef:_%d" % l)
        kind, bi, si, x = ds[0]
        seen2 = seen | {l}
        return self._call(x, depth + 1, seen2) if kind == "call" else self._rv(x, depth + 1, seen2)


def constraint_subject(prov, key):
    """Expression denoted by a variant-constraint key (local, projection-keys) of a path state."""
    l, projs = key
    e = prov.local(l)
    for pk in projs:
        if pk[0] == "f":
            e = _field(e, str(pk[1])) if e[0] in ("tuple",) else ("field", e, str(pk[1]))
        elif pk[0] == "dc":
            e = ("as", e, pk[1])
    return e


def check_chain(ctx, fn, prov, label, steps, final_ok=True, rule="R-MUST"):
    """steps: [(name, call predicate, [arg predicates or None], description)].  Verifies that each step is
    called exactly once, its error is propagated (`?`), every later step is reachable only after the
    earlier step returned Ok, and (final_ok) every `Ok(..)` exit is dominated by the last step's Ok edge.
    Returns the matched calls (or None)."""
    calls = []
    for name, pred, argpreds, desc in steps:
        cs = fn.calls_to(pred)
        if not ctx.require(len(cs) == 1, rule, "%s:%s:present" % (label, name), "%s called once" % desc,
                           "%s: expected exactly one call to %s, found %d" % (fn.path, desc, len(cs))):
            return None
        c = cs[0]
        calls.append(c)
        ctx.require(err_propagates(fn, c), rule, "%s:%s:propagated" % (label, name), "Err of %s is propagated with ?" % desc,
                    "%s: the error of %s is not propagated (ignored or swallowed)" % (fn.path, desc), sample={"site": c.loc()})
        if argpreds:
            for i, ap in enumerate(argpreds):
                if ap is None:
                    continue
                e = prov.operand(c.args[i])
                ctx.require(ap(e), "R-FLOW", "%s:%s:arg%d" % (label, name, i), "%s arg %d = %s" % (desc, i, show(e)[:100]),
                            "%s: argument %d of %s is `%s`" % (fn.path, i, desc, show(e)[:200]))
    for (n1, *_), c1, (n2, *_), c2 in zip(steps, calls, steps[1:], calls[1:]):
        ctx.require(guarded_by_ok(fn, c1, c2.bb), "R-GUARD", "%s:%s-before-%s" % (label, n1, n2), "%s only after %s returned Ok" % (n2, n1),
                    "%s: %s is reachable without %s having returned Ok" % (fn.path, n2, n1))
    if final_ok and calls:
        okb = result_edges(fn, calls[-1]).get("ok")
        ok_exits = [bi for bi, si, s in fn.stmts() if s["lhs"]["l"] == 0 and not s["lhs"]["p"] and s["rv"]["k"] == "agg" and s["rv"].get("variant") == "Ok"]
        ctx.require(okb is not None and ok_exits and all(fn.dominates(okb, b) for b in ok_exits), rule, "%s:ok-needs-all" % label,
                    "every Ok exit is dominated by the Ok edge of %s" % steps[-1][0],
                    "%s can return Ok without %s having succeeded" % (fn.path, steps[-1][0]))
    return calls


def variant_guards(fn, site_bb, prov=None):
    """[(subject expression, variant name)] for every enum-discriminant switch one of whose edges must be
    taken to reach site_bb."""
    prov = prov or Prov(fn)
    out = []
    for bi, b in enumerate(fn.blocks):
        if b["cleanup"]:
            continue
        t = b["term"]
        if t["k"] != "switch":
            continue
        dp = op_place(t["discr"])
        if not dp or dp["p"]:
            continue
        dstmt = None
        for s in b["stmts"]:
            if "lhs" in s and s["lhs"]["l"] == dp["l"] and s["rv"]["k"] == "discr":
                dstmt = s["rv"]
        if dstmt is None:
            continue
        names = dstmt["vars"]
        listed = set()
        for v, tb in t["targets"]:
            nm = names.get(v, v)
            listed.add(nm)
            others = [x for _, x in t["targets"] if x != tb] + [t["otherwise"]]
            if tb not in others[:-1] and tb != t["otherwise"] and edge_dominates(fn, bi, tb, None, site_bb):
                out.append((prov.place(dstmt["place"]), nm))
        rest = [n for n in names.values() if n not in listed]
        if len(rest) == 1 and not _is_unreachable(fn, t["otherwise"]) and t["otherwise"] not in [x for _, x in t["targets"]]:
            if edge_dominates(fn, bi, t["otherwise"], None, site_bb):
                out.append((prov.place(dstmt["place"]), rest[0]))
    return out


# ------------------------------------------------------------------------------------------------
# Thin forwarding helpers: "fn calls G" should not depend on whether a one-line helper sits in between.

def forwarding_calls(F, fn, target_suffix, depth=2):
    """Call sites in `fn` that reach `target_suffix`: direct calls, plus calls to a workspace helper in which every
    path from entry to a normal return passes such a call (recursively, bounded).  For a forwarded call the
    returned tuples carry an argument map helper-param-index -> target-arg-index so that provenance of the target's
    arguments can be traced back to the outer call's operands.  -> [(outer Call, {target arg idx: outer arg idx})]"""
    out = []
    for c in fn.calls:
        if facts_suffix(c.path, target_suffix):
            out.append((c, {i: i for i in range(len(c.args))}))
            continue
        if depth <= 0:
            continue
        h = F.fns.get(c.cid)
        if h is None or h is fn or h.kind == "Closure":
            continue
        inner = forwarding_calls(F, h, target_suffix, depth - 1)
        if not inner:
            continue
        bbs = [ic.bb for ic, _ in inner]
        if not h.must_pass(0, bbs):
            continue
        hp = Prov(h)
        ic, imap = inner[0]
        amap = {}
        for ti, hi in imap.items():
            e = hp.operand(ic.args[hi])
            e = strip(e)
            if e[0] == "param" and 1 <= e[2] <= len(c.args):
                amap[ti] = e[2] - 1
        out.append((c, amap))
    return out


def facts_suffix(path, pat):
    from .facts import suffix_match
    return suffix_match(path, pat)


def family(F, fn, _parent=None):
    """[(function, Prov)] for `fn` and every closure nested in it; closure Provs resolve captured variables through
    the enclosing function, so `for x in xs { f(x, y) }` and `xs.iter().try_for_each(|x| f(x, y))` look alike."""
    p = Prov(fn, parent=_parent)
    out = [(fn, p)]
    pre = fn.id + "::{closure#"
    for cid, c in F.fns.items():
        if cid.startswith(pre) and "::{closure#" not in cid[len(pre):]:
            out.extend(family(F, c, p))
    return out


def family_calls(F, fn, pred):
    """[(owner fn, Call, Prov)] over the function and its nested closures."""
    out = []
    for f, p in family(F, fn):
        for c in f.calls_to(pred):
            out.append((f, c, p))
    return out


def arg_named(F, call, name, index=None):
    """Operand of `call` bound to the callee parameter called `name` (audited name); falls back to a position when the
    callee is not a workspace function.  A private function's parameter ORDER is not part of any contract."""
    callee = F.fns.get(call.cid)
    if callee is not None:
        for i in range(len(call.args)):
            if callee.names.get(i + 1) == name:
                return call.args[i]
    if index is not None and index < len(call.args):
        return call.args[index]
    return None


def _strip_ok_preserving(e):
    while e[0] == "call" and e[1].endswith(OK_PRESERVING) and e[2]:
        e = e[2][0]
    return e


def returns_call_result(fn, call):
    """The function's result is (possibly an error-mapped form of) the value of `call` on some return path."""
    r = Prov(fn).local(0)
    alts = r[1] if r[0] == "phi" else [r]
    for a in alts:
        a = _strip_ok_preserving(a)
        if a[0] == "call" and a[3] is call:
            return True
    return False


def each_entry_checked(F, fn, inner_suffix):
    """`fn` applies `inner` to every element of an iteration and propagates its first error, in either idiom:
    `for x in it { inner(x)?; }`  or  `it.try_for_each(|x| inner(x))` (result returned or `?`-propagated).
    Returns (ok, description)."""
    cs = fn.calls_to(inner_suffix)
    if len(cs) == 1:
        ok = err_propagates(fn, cs[0]) and not [g for g in guards_of(fn, cs[0].bb) if g[1] is not None]
        return ok, "loop body calls %s with ?" % inner_suffix
    if cs:
        return False, "%d direct calls" % len(cs)
    hits = []
    for cl in [f for fid, f in F.fns.items() if fid.startswith(fn.id + "::{closure#")]:
        for c in cl.calls_to(inner_suffix):
            hits.append((cl, c))
    if len(hits) != 1:
        return False, "%d calls in closures" % len(hits)
    cl, c = hits[0]
    if not (returns_call_result(cl, c) or err_propagates(cl, c)) or [g for g in guards_of(cl, c.bb) if g[1] is not None]:
        return False, "closure does not return the check's result unconditionally"
    drivers = [d for d in fn.calls if d.path.endswith(("Iterator::try_for_each", "::try_for_each")) and
               any(a.get("const", {}).get("fn", {}).get("id") == cl.id for a in d.args) or
               (d.path.endswith(("Iterator::try_for_each", "::try_for_each")) and _passes_closure(fn, d, cl))]
    if len(drivers) != 1:
        return False, "closure is not driven by exactly one try_for_each"
    d = drivers[0]
    if not (returns_call_result(fn, d) or err_propagates(fn, d)):
        return False, "try_for_each result is dropped"
    return True, "try_for_each(closure calling %s), result propagated" % inner_suffix


def _passes_closure(fn, call, cl):
    p = Prov(fn)
    for a in call.args:
        e = p.operand(a)
        if any(x[0] == "closure" and x[1] == cl.id for x in walk(e)):
            return True
    return False


def inlined_calls(e, suffix):
    """Call nodes named `suffix` anywhere in an expression, including inside inlined helper bodies."""
    return [x for x in walk(e) if x[0] == "call" and facts_suffix(x[1], suffix)]


def loop_depth(fn, bb):
    """Number of natural loops (back edge u->h with h dominating u) whose body contains block bb."""
    depth = 0
    reach = fn.reachable()
    for u in reach:
        for h in fn.succ[u]:
            if h in reach and fn.dominates(h, u):
                # body: nodes that reach u without passing h, plus h
                body = {h, u}
                st = [u]
                while st:
                    x = st.pop()
                    if x == h:
                        continue
                    for pr in fn.pred[x]:
                        if pr not in body and pr in reach:
                            body.add(pr)
                            st.append(pr)
                if bb in body:
                    depth += 1
    return depth
