"""Fact base: builds (via the airlint rustc_private driver) and loads the type-checked
program of /repo as structured MIR facts.  Nothing here judges a property."""
import fcntl
import glob
import hashlib
import json
import os
import shutil
import subprocess
import sys
import time

VERIF = os.path.dirname(os.path.dirname(os.path.abspath(__file__)))
REPO = os.environ.get("VERIF_REPO", "/repo")
WORK = os.environ.get("VERIF_WORK") or os.path.join(VERIF, ".work")
AIRLINT_DIR = os.path.join(VERIF, "airlint")
AIRLINT = os.path.join(AIRLINT_DIR, "target", "release", "airlint")

CONFIGS = {
    # production configuration: what air-interpreter builds by default
    "prod": {
        "args": ["-p", "aquavm-air", "-p", "air-beautifier", "-p", "avm-interface",
                 "--features", "aquavm-air/check_signatures,aquavm-air/gen_signatures"],
        "expect": ["air", "air_parser", "air_trace_handler", "air_interpreter_data",
                   "air_interpreter_cid", "air_interpreter_signatures", "air_interpreter_value",
                   "air_interpreter_interface", "air_interpreter_sede", "air_lambda_ast",
                   "air_lambda_parser", "polyplets", "air_beautifier", "avm_interface",
                   "air_execution_info_collector"],
    },
    # default-feature build of the library crate (signature checking compiled out)
    "nosig": {
        "args": ["-p", "aquavm-air"],
        "expect": ["air", "air_trace_handler", "air_interpreter_data"],
    },
    # host-buildable rest of the workspace (server, cli, data store)
    "ws": {
        "args": ["-p", "aquavm-air", "-p", "air-beautifier", "-p", "avm-interface", "-p", "avm-server",
                 "-p", "avm-data-store", "-p", "aquavm-air-cli",
                 "--features", "aquavm-air/check_signatures,aquavm-air/gen_signatures"],
        "expect": ["air", "air_parser", "avm_server", "avm_data_store", "avm_interface"],
    },
}


class AnalysisError(Exception):
    pass


_CACHE = {}


import re as _re
_CLOSURE_TY = _re.compile(r"\{(closure|coroutine)@[^}]*\}")


def norm_ty(t):
    """Type rendering without source positions (closure types print `{closure@file:line:col}`)."""
    return _CLOSURE_TY.sub(r"{\1}", t)


def upvar_key(place):
    return [str(e.get("i", e.get("f"))) if isinstance(e, dict) and "f" in e else "*" if e == "*" else "?" for e in place["p"] if e != "*"]


def callee_tag(path):
    """Module-insensitive name of a callee: last two segments of the normalised path (type::method or mod::fn)."""
    p = norm(path)
    if p.startswith("<") and ">::" in p:
        head, _, meth = p.rpartition(">::")
        ty = head[1:].split(" as ")[0].split("<")[0].split("::")[-1]
        tr = head.split(" as ")[-1].split("<")[0].split("::")[-1] if " as " in head else ""
        return "%s/%s::%s" % (ty, tr, meth)
    return "::".join(p.split("::")[-2:])


_CANON_NAMES = None
_ALIAS = {}          # current path -> audited path (functions re-bound after a rename / move)


def canon_names():
    """tables/fn_table.json: audited parameter / capture names by position and function fingerprints (tools/mk_fn_table.py)."""
    global _CANON_NAMES
    if _CANON_NAMES is None:
        _CANON_NAMES = {}
        if not os.environ.get("VERIF_NO_FN_TABLE"):
            try:
                with open(os.path.join(VERIF, "tables", "fn_table.json")) as fh:
                    _CANON_NAMES = json.load(fh)
            except OSError:
                pass
    return _CANON_NAMES


def alias(path):
    if not _ALIAS:
        return path
    r = _ALIAS.get(path)
    if r is not None:
        return r
    i = path.find("::{closure")
    if i > 0 and path[:i] in _ALIAS:
        return _ALIAS[path[:i]] + path[i:]
    return path


def suffix_match(path, pat):
    """`pat` matches the tail of `path` at a path-segment boundary (so `Stream::iter` does not match
    `CanonStream::iter`).  Patterns starting with a non-identifier character (`>::f`) match as plain suffixes."""
    if isinstance(pat, (tuple, list)):
        return any(suffix_match(path, p) for p in pat)
    if not path.endswith(pat):
        return False
    if len(path) == len(pat) or not (pat[0].isalnum() or pat[0] == "_"):
        return True
    prev = path[len(path) - len(pat) - 1]
    return not (prev.isalnum() or prev == "_")


_NORM = {}


def norm(path):
    """Drop turbofish generic-parameter groups from a def path (`Vec::<T, A>::push` -> `Vec::push`,
    `ResolvedCall::<'i>::execute` -> `ResolvedCall::execute`); `::<impl Trait for X>::` is kept."""
    r = _NORM.get(path)
    if r is not None:
        return r
    out = []
    i, n = 0, len(path)
    while i < n:
        if path.startswith("::<", i) and not path.startswith("::<impl ", i):
            depth, j = 0, i + 2
            while j < n:
                ch = path[j]
                if ch == "<":
                    depth += 1
                elif ch == ">" and path[j - 1] != "-":
                    depth -= 1
                    if depth == 0:
                        break
                j += 1
            i = j + 1
            continue
        out.append(path[i])
        i += 1
    r = "".join(out)
    _NORM[path] = r
    return r


def _run(cmd, **kw):
    return subprocess.run(cmd, stdout=subprocess.PIPE, stderr=subprocess.STDOUT, text=True, **kw)


def source_hash():
    """Hash over the working-tree content of everything that feeds the build."""
    h = hashlib.sha256()
    names = []
    for root, dirs, files in os.walk(REPO):
        dirs[:] = sorted(d for d in dirs if d not in ("target", ".git", "node_modules", ".github"))
        for f in sorted(files):
            if f.endswith((".rs", ".lalrpop", ".toml", ".lock")):
                names.append(os.path.join(root, f))
    for n in names:
        h.update(n.encode())
        try:
            with open(n, "rb") as fh:
                h.update(hashlib.sha256(fh.read()).digest())
        except OSError:
            pass
    try:
        with open(AIRLINT, "rb") as fh:
            h.update(hashlib.sha256(fh.read()).digest())
    except OSError:
        pass
    return h.hexdigest()[:20]


def nightly_paths():
    rustc = _run(["rustup", "which", "--toolchain", "nightly", "rustc"]).stdout.strip()
    sysroot = _run([rustc, "--print", "sysroot"]).stdout.strip()
    return rustc, sysroot


def build_airlint():
    src = os.path.join(AIRLINT_DIR, "src", "main.rs")
    if os.path.exists(AIRLINT) and os.path.getmtime(AIRLINT) >= os.path.getmtime(src):
        return
    env = dict(os.environ, CARGO_NET_OFFLINE="true")
    r = _run(["cargo", "+nightly", "build", "--release", "--offline"], cwd=AIRLINT_DIR, env=env)
    if r.returncode != 0 or not os.path.exists(AIRLINT):
        raise AnalysisError("cannot build airlint:\n" + r.stdout[-4000:])


def _member_names():
    r = subprocess.run(["cargo", "metadata", "--offline", "--no-deps", "--format-version", "1"],
                       cwd=REPO, stdout=subprocess.PIPE, stderr=subprocess.PIPE, text=True)
    if r.returncode != 0:
        raise AnalysisError("cargo metadata failed:\n" + r.stderr[-3000:])
    return [p["name"] for p in json.loads(r.stdout)["packages"]]


def _clear_member_fingerprints(target):
    fp = os.path.join(target, "debug", ".fingerprint")
    if not os.path.isdir(fp):
        return
    members = set(_member_names())
    for d in os.listdir(fp):
        base = d.rsplit("-", 1)[0]
        if base in members:
            full = os.path.join(fp, d)
            try:
                ents = os.listdir(full)
            except OSError:
                continue
            # only library/binary units; keep build-script units (lalrpop generation is slow and
            # cargo tracks its inputs itself through rerun-if-changed / mtime)
            if any(e.startswith(("lib-", "bin-")) for e in ents):
                shutil.rmtree(full, ignore_errors=True)


def ensure_facts(config="prod", quiet=False):
    """Returns the directory holding facts for the current /repo working tree."""
    os.makedirs(WORK, exist_ok=True)
    lock = open(os.path.join(WORK, "lock"), "w")
    fcntl.flock(lock, fcntl.LOCK_EX)
    try:
        build_airlint()
        h = source_hash()
        base = os.path.join(WORK, "facts", config)
        out = os.path.join(base, h)
        marker = os.path.join(out, "COMPLETE")
        if os.path.exists(marker):
            return out
        if os.path.isdir(base):
            for old in os.listdir(base):
                shutil.rmtree(os.path.join(base, old), ignore_errors=True)
        os.makedirs(out, exist_ok=True)
        target = os.path.join(WORK, "target")
        os.makedirs(target, exist_ok=True)
        _clear_member_fingerprints(target)
        rustc, sysroot = nightly_paths()
        env = dict(os.environ)
        env.pop("RUSTUP_TOOLCHAIN", None)
        env.update({
            "CARGO_NET_OFFLINE": "true",
            "RUSTC": rustc,
            "RUSTC_WORKSPACE_WRAPPER": AIRLINT,
            "LD_LIBRARY_PATH": os.path.join(sysroot, "lib") + ":" + env.get("LD_LIBRARY_PATH", ""),
            "RUSTFLAGS": "--cap-lints allow -Zmir-opt-level=0 -C debug-assertions=no -C overflow-checks=yes",
            "CARGO_TARGET_DIR": target,
            "AIRLINT_OUT": out,
        })
        t0 = time.time()
        cmd = ["cargo", "check", "--offline"] + CONFIGS[config]["args"]
        r = _run(cmd, cwd=REPO, env=env)
        if r.returncode != 0:
            shutil.rmtree(out, ignore_errors=True)
            raise AnalysisError("/repo does not type-check under the analysis toolchain (config %s):\n%s"
                                % (config, r.stdout[-6000:]))
        have = {os.path.basename(p).rsplit("-", 1)[0] for p in glob.glob(os.path.join(out, "*.jsonl"))}
        missing = [c for c in CONFIGS[config]["expect"] if c not in have]
        if missing:
            shutil.rmtree(out, ignore_errors=True)
            raise AnalysisError("fact files were not (re)written for crates %s (cargo skipped the wrapper?)\n%s"
                                % (missing, r.stdout[-3000:]))
        with open(marker, "w") as fh:
            fh.write("%s %.1fs\n" % (h, time.time() - t0))
        if not quiet:
            sys.stderr.write("[facts] extracted config=%s in %.1fs -> %s\n" % (config, time.time() - t0, out))
        return out
    finally:
        fcntl.flock(lock, fcntl.LOCK_UN)
        lock.close()


FIXTURE_DIR = os.path.join(VERIF, "fixtures", "positive")


def ensure_fixture_facts():
    """Facts of the positive-control crate (fixtures/positive), extracted by the same airlint driver."""
    os.makedirs(WORK, exist_ok=True)
    lock = open(os.path.join(WORK, "lock"), "w")
    fcntl.flock(lock, fcntl.LOCK_EX)
    try:
        build_airlint()
        h = hashlib.sha256()
        for n in ("Cargo.toml", os.path.join("src", "lib.rs")):
            with open(os.path.join(FIXTURE_DIR, n), "rb") as fh:
                h.update(fh.read())
        with open(AIRLINT, "rb") as fh:
            h.update(hashlib.sha256(fh.read()).digest())
        out = os.path.join(WORK, "facts", "fixture", h.hexdigest()[:20])
        marker = os.path.join(out, "COMPLETE")
        if os.path.exists(marker):
            return out
        shutil.rmtree(os.path.join(WORK, "facts", "fixture"), ignore_errors=True)
        os.makedirs(out, exist_ok=True)
        target = os.path.join(WORK, "target-fixture")
        shutil.rmtree(target, ignore_errors=True)
        rustc, sysroot = nightly_paths()
        env = dict(os.environ)
        env.pop("RUSTUP_TOOLCHAIN", None)
        env.update({
            "CARGO_NET_OFFLINE": "true", "RUSTC_WORKSPACE_WRAPPER": AIRLINT,
            "LD_LIBRARY_PATH": os.path.join(sysroot, "lib") + ":" + env.get("LD_LIBRARY_PATH", ""),
            "RUSTFLAGS": "--cap-lints allow -Zmir-opt-level=0 -C debug-assertions=no -C overflow-checks=yes",
            "CARGO_TARGET_DIR": target, "AIRLINT_OUT": out,
        })
        r = _run(["cargo", "+nightly", "check", "--offline"], cwd=FIXTURE_DIR, env=env)
        if r.returncode != 0 or not glob.glob(os.path.join(out, "air_fixture*.jsonl")):
            shutil.rmtree(out, ignore_errors=True)
            raise AnalysisError("cannot analyse the positive-control fixture crate:\n" + r.stdout[-3000:])
        with open(marker, "w") as fh:
            fh.write("ok\n")
        return out
    finally:
        fcntl.flock(lock, fcntl.LOCK_UN)
        lock.close()


def load_fixture():
    d = ensure_fixture_facts()
    if d not in _CACHE:
        _CACHE[d] = Facts(d)
    return _CACHE[d]


# ---------------------------------------------------------------------------------------------
# In-memory model

class Call:
    __slots__ = ("fn", "bb", "callee", "path", "cid", "full", "kind", "args", "atys", "dest", "target",
                 "sp", "ex", "line", "local", "orig", "term")

    def __init__(self, fn, bb, term):
        c = term["callee"]
        self.fn = fn
        self.bb = bb
        self.term = term
        self.callee = c
        self.path = alias(norm(c["path"]))
        self.cid = c["id"]
        self.full = c.get("full", c["path"])
        self.kind = c.get("kind")
        self.local = c.get("local", False)
        self.orig = norm(c["orig"]) if c.get("orig") else None
        self.args = term["args"]
        self.atys = term.get("atys", [])
        self.dest = term["dest"]
        self.target = term["t"]
        self.sp = term["sp"]
        self.ex = term["sp"].get("ex", [])
        self.line = fn.blocks[bb]["ln"]

    def loc(self):
        s = self.sp.get("cs") or self.sp["s"]
        return s.split(": ")[0]

    def __repr__(self):
        return "<call %s in %s bb%d @%s>" % (self.path, self.fn.path, self.bb, self.loc())


class Fn:
    def __init__(self, o, crate):
        self.o = o
        self.crate = crate
        self.path = norm(o["path"])
        self.id = o["id"]
        self.kind = o["kind"]
        self.vis = o["vis"]
        self.impl = o.get("impl")
        self.blocks = o["blocks"]
        self.locals = o["locals"]
        self.argc = o["argc"]
        self.sp = o["sp"]
        self.ex = o["sp"].get("ex", [])
        self.file = o["body_sp"].split(":")[0]
        self.names = {}
        self.name_places = []
        for n in o["names"]:
            self.name_places.append((n["name"], n["place"]))
            if not n["place"]["p"]:
                self.names.setdefault(n["place"]["l"], n["name"])
        self._succ = None
        self._pred = None
        self._calls = None
        self._dom = None
        self.renamed = {}
        self._canonicalise_names()

    def _canonicalise_names(self):
        """Parameters (and closure captures) get the names they had when the rules were audited, by position, as long
        as the parameter type list is unchanged: a renamed parameter is the same parameter; two swapped arguments of
        the same type keep their positions' audited names, so a rule about `prev` vs `current` follows the position."""
        ent = canon_names().get(self.path)
        if not ent:
            return
        if self.argc and ent.get("names"):
            tys = [norm_ty(t) for t in self.locals[1:self.argc + 1]]
            want = ent["tys"]
            mapping = None
            if tys == want:
                mapping = {i + 1: n for i, n in enumerate(ent["names"])}
            elif sorted(tys) == sorted(want) and len(set(tys)) == len(tys):
                mapping = {tys.index(t) + 1: n for t, n in zip(want, ent["names"])}     # reordered, types unique
            if mapping:
                for l, n in mapping.items():
                    if n and self.names.get(l) != n:
                        self.renamed[l] = (self.names.get(l), n)
                        self.names[l] = n
                        self.name_places = [(n if (pl["l"] == l and not pl["p"]) else nm, pl) for nm, pl in self.name_places]
        if self.kind == "Closure" and ent.get("upvars"):
            cur = [(i, nm, pl) for i, (nm, pl) in enumerate(self.name_places) if pl["l"] == 1 and pl["p"]]
            if len(cur) == len(ent["upvars"]) and all(upvar_key(pl) == k for (_, _, pl), (k, _) in zip(cur, ent["upvars"])):
                for (i, nm, pl), (_, n) in zip(cur, ent["upvars"]):
                    if n != nm:
                        self.renamed[("upvar", i)] = (nm, n)
                        self.name_places[i] = (n, pl)

    def loc(self):
        return self.o["body_sp"].split(": ")[0]

    # --- CFG (normal edges only; unwind edges and cleanup blocks are excluded) ---
    @property
    def succ(self):
        if self._succ is None:
            s = []
            for b in self.blocks:
                t = b["term"]
                k = t["k"]
                if b["cleanup"]:
                    s.append([])
                elif k == "goto":
                    s.append([t["t"]])
                elif k == "switch":
                    out = []
                    for _, tb in t["targets"]:
                        if tb not in out:
                            out.append(tb)
                    if t["otherwise"] not in out:
                        out.append(t["otherwise"])
                    s.append(out)
                elif k in ("drop", "assert"):
                    s.append([t["t"]])
                elif k == "call":
                    s.append([t["t"]] if t["t"] >= 0 else [])
                else:
                    s.append([])
            self._succ = s
        return self._succ

    @property
    def pred(self):
        if self._pred is None:
            p = [[] for _ in self.blocks]
            for i, ss in enumerate(self.succ):
                for j in ss:
                    p[j].append(i)
            self._pred = p
        return self._pred

    @property
    def returns(self):
        return [i for i, b in enumerate(self.blocks) if b["term"]["k"] == "return"]

    @property
    def calls(self):
        if self._calls is None:
            self._calls = [Call(self, i, b["term"]) for i, b in enumerate(self.blocks)
                           if b["term"]["k"] == "call" and not b["cleanup"]]
        return self._calls

    def calls_to(self, pred):
        if isinstance(pred, str):
            s = pred
            pred = lambda c: suffix_match(c.path, s)
        return [c for c in self.calls if pred(c)]

    def reach_from(self, start, avoid=()):
        """Blocks reachable from `start` (inclusive) along normal edges without entering `avoid`."""
        avoid = set(avoid)
        seen = set()
        st = [start] if start not in avoid else []
        while st:
            b = st.pop()
            if b in seen:
                continue
            seen.add(b)
            for n in self.succ[b]:
                if n not in avoid and n not in seen:
                    st.append(n)
        return seen

    def reach_after(self, bb, avoid=()):
        """Blocks reachable strictly after executing block bb."""
        out = set()
        for n in self.succ[bb]:
            if n not in avoid:
                out |= self.reach_from(n, avoid)
        return out

    def reachable(self):
        return self.reach_from(0)

    def dominators(self):
        if self._dom is None:
            n = len(self.blocks)
            reach = self.reach_from(0)
            order = []
            seen = set()

            def dfs(root):
                stack = [(root, iter(self.succ[root]))]
                seen.add(root)
                while stack:
                    node, it = stack[-1]
                    adv = False
                    for m in it:
                        if m not in seen:
                            seen.add(m)
                            stack.append((m, iter(self.succ[m])))
                            adv = True
                            break
                    if not adv:
                        order.append(node)
                        stack.pop()
            dfs(0)
            rpo = list(reversed(order))
            idx = {b: i for i, b in enumerate(rpo)}
            idom = {0: 0}

            def inter(a, b):
                while a != b:
                    while idx[a] > idx[b]:
                        a = idom[a]
                    while idx[b] > idx[a]:
                        b = idom[b]
                return a
            changed = True
            while changed:
                changed = False
                for b in rpo[1:]:
                    ps = [p for p in self.pred[b] if p in idom and p in reach]
                    if not ps:
                        continue
                    new = ps[0]
                    for p in ps[1:]:
                        new = inter(new, p)
                    if idom.get(b) != new:
                        idom[b] = new
                        changed = True
            self._dom = idom
        return self._dom

    def dominates(self, a, b):
        """block a dominates block b (a == b counts)."""
        idom = self.dominators()
        if b not in idom:
            return False
        while True:
            if a == b:
                return True
            if b == 0:
                return False
            b = idom[b]

    def must_pass(self, start, through, goals=None):
        """Every normal path from block `start` to a goal (default: any return) enters a block in `through`."""
        goals = set(self.returns if goals is None else goals)
        r = self.reach_from(start, avoid=set(through))
        return not (r & goals)

    def local_name(self, l):
        return self.names.get(l, "_%d" % l)

    def local_ty(self, l):
        return self.locals[l]

    def stmts(self):
        for i, b in enumerate(self.blocks):
            if b["cleanup"]:
                continue
            for j, s in enumerate(b["stmts"]):
                if "lhs" in s:
                    yield i, j, s

    def __repr__(self):
        return "<fn %s>" % self.path


class Facts:
    def __init__(self, directory):
        self.dir = directory
        self.fns = {}        # id -> Fn
        self.by_path = {}    # pretty path -> [Fn]
        self.adts = {}       # path -> adt obj
        self.impls = []
        self.consts = {}
        self.unsafe = []
        self.crates = {}
        for f in sorted(glob.glob(os.path.join(directory, "*.jsonl"))):
            crate = None
            with open(f) as fh:
                for line in fh:
                    o = json.loads(line)
                    k = o["k"]
                    if k == "crate":
                        crate = o["name"]
                        self.crates[crate] = o
                    elif k == "fn":
                        fn = Fn(o, crate)
                        self.fns[fn.id] = fn
                        self.by_path.setdefault(fn.path, []).append(fn)
                    elif k == "adt":
                        o["crate"] = crate
                        self.adts[o["path"]] = o
                    elif k == "impl":
                        o["crate"] = crate
                        self.impls.append(o)
                    elif k == "const":
                        o["crate"] = crate
                        self.consts[o["path"]] = o
                    elif k == "unsafe":
                        o["crate"] = crate
                        self.unsafe.append(o)
        self._cg = None
        self._trait_impls = None
        self.rebound = {}
        self._rebind_renamed()

    def _rebind_renamed(self):
        """A function of the audited table that no longer exists under its path is re-bound to the unique NEW function
        (one that is not in the table) of the same crate with the same parameter/return types and a matching callee
        fingerprint: a rename or a move to another module is a behaviour-preserving edit and must not lose the anchor.
        The re-bound function (and its call sites and closures) is then seen under the audited path."""
        table = canon_names()
        if not table:
            return
        present = {p: fs[0] for p, fs in self.by_path.items() if len(fs) == 1}
        missing = [p for p, e in table.items() if p not in self.by_path and "::{closure" not in p and e["crate"] in self.crates]
        new = [f for p, f in present.items() if p not in table and "::{closure" not in p and f.kind != "Closure"
               and not any("derive" in x for x in f.ex)]
        if not missing or not new:
            return
        cand = []
        for P in missing:
            e = table[P]
            for f in new:
                if f.crate != e["crate"] or f.argc != len(e["tys"]):
                    continue
                if [norm_ty(t) for t in f.locals[1:f.argc + 1]] != e["tys"] or norm_ty(f.locals[0]) != e["ret"]:
                    continue
                a, b = set(e.get("callees", ())), {callee_tag(c.path) for c in f.calls}
                same_name = P.split("::")[-1] == f.path.split("::")[-1]
                same_parent = P.rsplit("::", 1)[0] == f.path.rsplit("::", 1)[0]      # renamed inside its impl / module
                if not a and not b:
                    score = 1.0 if same_name else 0.5
                else:
                    score = len(a & b) / float(len(a | b))
                if same_name or same_parent:
                    score = min(1.0, score + 0.3)
                cand.append((score, P, f))
        cand.sort(key=lambda x: -x[0])
        usedP, usedF = set(), set()
        for score, P, f in cand:
            if score < 0.6 or P in usedP or f.id in usedF:
                continue
            rivals = [s2 for s2, P2, f2 in cand if (P2 == P) != (f2.id == f.id) and P2 not in usedP and f2.id not in usedF and s2 > score - 0.15]
            if rivals:
                continue
            usedP.add(P)
            usedF.add(f.id)
            _ALIAS[f.path] = P
            self.rebound[P] = f.path
        if not _ALIAS:
            return
        for f in list(self.fns.values()):
            np = alias(f.path)
            if np != f.path:
                self.by_path[f.path].remove(f)
                if not self.by_path[f.path]:
                    del self.by_path[f.path]
                f.path = np
                self.by_path.setdefault(np, []).append(f)
                f._canonicalise_names()
            f._calls = None

    # lookups ---------------------------------------------------------------
    def fn(self, suffix, crate=None):
        """Unique function whose pretty path equals or ends with `suffix` (at a `::` boundary)."""
        r = self.find(suffix, crate)
        if len(r) != 1:
            raise AnalysisError("anchor lost: expected exactly one function matching %r (crate=%s), found %d: %s"
                                % (suffix, crate, len(r), [f.path for f in r][:6]))
        return r[0]

    def find(self, suffix, crate=None):
        out = []
        for p, fs in self.by_path.items():
            if p == suffix or p.endswith("::" + suffix) or (suffix.startswith("<") and p == suffix):
                for f in fs:
                    if crate is None or f.crate == crate:
                        out.append(f)
        return out

    def impl_fns(self, trait_suffix, self_contains, method):
        """Functions implementing `method` of a trait (by trait def path suffix) for a self type
        (substring of the printed type), found through impl facts rather than path spelling."""
        out = []
        for im in self.impls:
            td = im.get("trait_def")
            if not td or not (td == trait_suffix or td.endswith("::" + trait_suffix)):
                continue
            if self_contains not in im["self"]:
                continue
            for it in im["items"]:
                if it["impl_item"].endswith("::" + method) and it["impl_id"] in self.fns:
                    out.append(self.fns[it["impl_id"]])
        return out

    def impl_fn(self, trait_suffix, self_contains, method, exact_self=None):
        r = self.impl_fns(trait_suffix, self_contains, method)
        if exact_self is not None:
            r = [f for f in r if self.impl_of(f)["self"] == exact_self or self.impl_of(f)["self"].endswith("::" + exact_self)]
        if len(r) != 1:
            raise AnalysisError("anchor lost: expected exactly one impl of %s::%s for %s, found %d"
                                % (trait_suffix, method, self_contains, len(r)))
        return r[0]

    def impl_of(self, fn):
        for im in self.impls:
            if im["id"] == fn.impl:
                return im
        return None

    def closures_of(self, fn):
        pre = fn.id + "::{closure#"
        return [f for i, f in self.fns.items() if i.startswith(pre)]

    def adt(self, suffix):
        r = [a for p, a in self.adts.items() if p == suffix or p.endswith("::" + suffix)]
        if len(r) != 1:
            raise AnalysisError("anchor lost: expected exactly one ADT matching %r, found %d" % (suffix, len(r)))
        return r[0]

    def const(self, suffix):
        r = [a for p, a in self.consts.items() if p == suffix or p.endswith("::" + suffix)]
        if len(r) != 1:
            raise AnalysisError("anchor lost: expected exactly one const matching %r, found %d" % (suffix, len(r)))
        return r[0]

    # call graph --------------------------------------------------------------
    def trait_impl_methods(self):
        """trait method pretty path -> [impl fn ids] (for virtual-call over-approximation)."""
        if self._trait_impls is None:
            m = {}
            for im in self.impls:
                for it in im["items"]:
                    if it["trait_item"]:
                        m.setdefault(norm(it["trait_item"]), []).append(it["impl_id"])
            self._trait_impls = m
        return self._trait_impls

    def callgraph(self):
        """fn id -> set of callee fn ids (workspace-local targets only), over-approximating:
        direct resolved calls, closures constructed, fn items referenced as values,
        virtual / unresolved trait calls -> every workspace impl of that trait method."""
        if self._cg is not None:
            return self._cg
        tim = self.trait_impl_methods()
        cg = {}
        for fid, fn in self.fns.items():
            out = set()
            for c in fn.calls:
                if c.cid in self.fns:
                    out.add(c.cid)
                if c.kind in ("virtual", "unresolved"):
                    for t in tim.get(c.path, []) + tim.get(c.orig or "", []):
                        if t in self.fns:
                            out.add(t)
                for a in c.args:
                    k = a.get("const")
                    if k and "fn" in k and k["fn"]["id"] in self.fns:
                        out.add(k["fn"]["id"])
                    if k and "fn" in k and k["fn"].get("kind") in ("virtual", "unresolved"):
                        for t in tim.get(norm(k["fn"]["path"]), []):
                            if t in self.fns:
                                out.add(t)
            for _, _, s in fn.stmts():
                rv = s["rv"]
                if rv["k"] == "agg" and rv.get("kind") == "closure" and rv["cid"] in self.fns:
                    out.add(rv["cid"])
                for op in rv_operands(rv):
                    k = op.get("const")
                    if k and "fn" in k and k["fn"]["id"] in self.fns:
                        out.add(k["fn"]["id"])
            cg[fid] = out
        self._cg = cg
        return cg

    def reachable_fns(self, roots):
        cg = self.callgraph()
        seen = set()
        st = [r.id if isinstance(r, Fn) else r for r in roots]
        parent = {}
        while st:
            f = st.pop()
            if f in seen:
                continue
            seen.add(f)
            for g in cg.get(f, ()):
                if g not in seen:
                    parent.setdefault(g, f)
                    st.append(g)
        return seen, parent

    def chain(self, parent, fid):
        out = [fid]
        while fid in parent:
            fid = parent[fid]
            out.append(fid)
        return list(reversed(out))


def rv_operands(rv):
    k = rv["k"]
    if k in ("use", "cast", "repeat"):
        return [rv["op"]]
    if k == "bin":
        return [rv["a"], rv["b"]]
    if k == "un":
        return [rv["a"]]
    if k == "agg":
        return rv["ops"]
    return []


def op_place(op):
    return op.get("copy") or op.get("move")


def op_local(op):
    p = op_place(op)
    return p["l"] if p else None


def load(config="prod"):
    d = ensure_facts(config)
    if d not in _CACHE:
        _CACHE[d] = Facts(d)
    return _CACHE[d]
