"""W-CF: compile-fail witnesses with a compiling twin (DESIGN §2.3).  The witness sources under /verif/witness are
type-checked (metadata only, nothing is run) by the analysis toolchain against the .rmeta files the fact build of
/repo's CURRENT source just produced, so they see today's types.  The bad file must fail with exactly the pinned
error code; the twin — identical but for the offending line — must compile, which rules out a witness that fails
for an unrelated reason (wrong path, missing item)."""
import glob
import json
import os
import subprocess
import tempfile

from . import facts


def _rmeta(target, crate):
    c = sorted(glob.glob(os.path.join(target, "debug", "deps", "lib%s-*.rmeta" % crate)), key=os.path.getmtime)
    if not c:
        raise facts.AnalysisError("anchor lost: no .rmeta for crate %s in the fact build" % crate)
    return c[-1]


def compile_witness(src, externs, config="prod"):
    """-> (ok: bool, [error codes])"""
    facts.ensure_facts(config)
    target = os.path.join(facts.WORK, "target")
    rustc, sysroot = facts.nightly_paths()
    env = dict(os.environ, LD_LIBRARY_PATH=os.path.join(sysroot, "lib") + ":" + os.environ.get("LD_LIBRARY_PATH", ""))
    env.pop("RUSTUP_TOOLCHAIN", None)
    with tempfile.TemporaryDirectory(dir=facts.WORK) as td:
        cmd = [rustc, "--edition", "2021", "--crate-type", "lib", "--emit=metadata", "-o", os.path.join(td, "w.rmeta"), src,
               "-L", "dependency=" + os.path.join(target, "debug", "deps"), "--error-format=json", "--cap-lints", "allow"]
        for e in externs:
            cmd += ["--extern", "%s=%s" % (e, _rmeta(target, e))]
        r = subprocess.run(cmd, stdout=subprocess.PIPE, stderr=subprocess.PIPE, text=True, env=env)
    codes = []
    for line in r.stderr.splitlines():
        try:
            d = json.loads(line)
        except ValueError:
            continue
        if d.get("level") == "error" and d.get("code"):
            codes.append(d["code"]["code"])
    return r.returncode == 0, codes


def check_pair(ctx, name, bad, ok, externs, code, what):
    base = os.path.join(facts.VERIF, "witness")
    okc, codes_ok = compile_witness(os.path.join(base, ok), externs)
    badc, codes_bad = compile_witness(os.path.join(base, bad), externs)
    ctx.require(okc, "W-CF", "witness:%s:twin-compiles" % name, "the twin (%s) type-checks against today's crates" % ok,
                "the compiling twin %s no longer type-checks (%s): the witness pair lost its anchor" % (ok, codes_ok))
    ctx.require((not badc) and codes_bad == [code], "W-CF", "witness:%s:rejected" % name, "%s: rejected by the type checker with %s only" % (what, code),
                "%s: the witness %s %s — the type-level barrier is gone" % (what, bad, "now COMPILES" if badc else "fails with %s instead of %s" % (codes_bad, code)),
                sample={"witness": bad, "error_codes": codes_bad})
