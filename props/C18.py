"""C18 — xor catches exactly the catchable failures and reports them faithfully (DESIGN §4/C18)."""
from rules import lib
from rules.lib import Prov, PathProv, show, walk
from props import common

LEVEL = ("Mechanism level: Xor::execute's dispatch table (right branch runs iff the left result is Err and "
         "is_catchable; otherwise the left result is returned unchanged), the per-variant sibling rule on "
         "Instruction::execute (every non-call child failure passes through set_errors with the same error and is "
         "returned unchanged; Call routes catchables through set_errors and returns uncatchables untouched), error "
         "objects and the final outcome take code and message from the same error via to_error_code/to_string, and the "
         "error-setting flag tables. Message equality for every failure kind in every context is not decided."
         " Added: a par whose branches both failed returns the recorded (left) error; every site re-enabling %last_error% recording re-enables :error: recording; no fresh error after disable_error_setting.")


def check(ctx):
    F = ctx.facts("prod")
    ctx.clause("R-TABLE Xor::execute: right child reachable only from Err && is_catchable; default arm returns the left result")
    ctx.clause("R-SIBLING Instruction::execute: 18 non-call variants route Err through set_errors and return the same error; Call's set_errors table")
    ctx.clause("R-SIBLING error object and outcome both use to_error_code/to_string of the same error")
    ctx.clause("R-TABLE set_errors ends with disable_error_setting; try_to_set_* early-return tables; affects_* tables")

    xs = [f for f in F.impl_fns("ExecutableInstruction", "::Xor<'i>", "execute") if F.impl_of(f)["self"].endswith("::Xor<'i>")]
    if ctx.require(len(xs) == 1, "R-TABLE", "xor:anchor", "Xor::execute found", "Xor::execute not found"):
        x = xs[0]
        xp = Prov(x)
        ex = x.calls_to(lambda c: c.path.endswith("ExecutableInstruction<'i>>::execute"))
        left = [c for c in ex if show(xp.operand(c.args[0])) == "self.0"]
        right = [c for c in ex if show(xp.operand(c.args[0])) == "self.1"]
        if ctx.require(len(left) == 1 and len(right) == 1, "R-TABLE", "xor:children", "left = self.0.execute, right = self.1.execute", "Xor::execute children calls changed (%d/%d)" % (len(left), len(right))):
            l, r = left[0], right[0]
            rows = {}
            for st in lib.enumerate_paths(x, xp, max_paths=60000):
                var = st.variants.get((l.dest["l"], ()))
                catch = None
                for br, val in st.conds:
                    if not isinstance(br, str) and br.expr[0] == "call" and br.expr[1].endswith("is_catchable"):
                        catch = val
                ran_right = r in st.calls
                e = PathProv(x, st.blocks).local(0)
                ret = "left" if (e[0] == "call" and e[3] is l) else "right" if (e[0] == "call" and e[3] is r) else show(e)[:60]
                rows.setdefault((var, catch), set()).add((ran_right, ret))
            want = {("Ok", None): {(False, "left")}, ("Err", True): {(True, "right")}, ("Err", False): {(False, "left")}}
            ctx.require(rows == want, "R-TABLE", "xor:table", "Ok -> left; Err&catchable -> run right, return right; Err&uncatchable -> left unchanged",
                        "Xor::execute table is %s" % {str(k): sorted(v) for k, v in rows.items()}, sample={"table": {str(k): sorted(map(str, v)) for k, v in rows.items()}})
            ic = x.calls_to("ExecutionError::is_catchable")
            ctx.require(len(ic) == 1 and any(s[0] == "call" and s[3] is l for s in walk(xp.operand(ic[0].args[0]))), "R-FLOW", "xor:is-catchable-arg",
                        "is_catchable asked of the left branch's error", "is_catchable is applied to something else")
            # prologue of the right branch
            need = ["ExecutionCtx::flush_subgraph_completeness", "LastErrorDescriptor::meet_xor_right_branch", "ErrorDescriptor::set_original_execution_error", "ErrorDescriptor::enable_error_setting"]
            for n in need:
                cs = [c for c in x.calls_to(n) if x.dominates(c.bb, r.bb) and c.bb in x.reach_after(l.bb)]
                ctx.require(len(cs) >= 1, "R-PAIR", "xor:prologue:" + n.split("::")[-1], "%s before the right branch" % n.split("::")[-1], "Xor::execute no longer calls %s before running the right branch" % n)
            cl = [c for c in x.calls_to("ErrorDescriptor::clear_error_object_if_needed") if c.bb in x.reach_after(r.bb)]
            ctx.require(len(cl) == 1 and x.must_pass(r.target, [cl[0].bb]), "R-PAIR", "xor:epilogue", ":error: cleared after the right branch on every path", "Xor::execute no longer clears :error: after the right branch")
    ie = [f for f in F.impl_fns("ExecutableInstruction", "::Instruction<'i>", "execute") if F.impl_of(f)["self"].endswith("::Instruction<'i>")]
    if ctx.require(len(ie) == 1, "R-SIBLING", "dispatch:anchor", "Instruction::execute found", "Instruction::execute not found"):
        f = ie[0]
        fp = Prov(f)
        variants = [v["name"] for v in F.adt("ast::instructions::Instruction")["variants"]]
        rows = {}
        for st in lib.enumerate_paths(f, fp, max_paths=120000):
            var = st.variants.get((1, ()))
            if var is None:
                continue
            child = [c for c in st.calls if c.path.endswith("::execute") and c.fn is f]
            res = None
            for c in child:
                res = st.variants.get((c.dest["l"], ()))
            se = lib.path_calls(st, "ExecutionCtx::set_errors")
            e = PathProv(f, st.blocks).local(0)
            same = None
            if res == "Err" and se:
                a = PathProv(f, st.blocks).operand(se[0].args[1])
                same = bool(child) and any(s[0] == "call" and s[3] is child[0] for s in walk(a)) and any(s[0] == "call" and s[3] is child[0] for s in walk(e)) and e[0] == "agg" and e[2] == "Err"
            rows.setdefault(var, set()).add((len(child), res, len(se), same))
        n_ok = 0
        for v in variants:
            if v in ("Call", "Error"):
                continue
            got = rows.get(v, set())
            want = {(1, "Err", 1, True)}
            errs = {g for g in got if g[1] == "Err"}
            oks = {g for g in got if g[1] != "Err"}
            ok = errs == want and all(g[0] == 1 and g[2] == 0 for g in oks) and oks
            if ok:
                n_ok += 1
            ctx.require(ok, "R-SIBLING", "dispatch:" + v, "%s: child failure -> set_errors(&e, ..) and Err(e) returned; success untouched" % v,
                        "Instruction::execute arm %s is %s: a failure of this instruction no longer reaches %%last_error%%/:error: faithfully" % (v, sorted(map(str, got))))
        ctx.floor("R-SIBLING", "non-call arms of Instruction::execute routed through set_errors", n_ok, 18)
        got = rows.get("Call", set())
        ctx.require(got and all(g[0] == 1 and g[2] == 0 for g in got), "R-SIBLING", "dispatch:Call", "Call arm delegates to Call::execute (which sets errors itself)", "Call arm is %s" % got)
        # set_errors args in the macro: (&e, &instr.to_string(), None, log_errors_with_peer_id())
        for c in f.calls_to("ExecutionCtx::set_errors")[:3]:
            a = [fp.operand(z) for z in c.args]
            ok = any(s[0] == "call" and s[1].endswith("to_string") for s in walk(a[2])) and a[3][0] == "agg" and a[3][2] == "None" and \
                a[4][0] == "call" and a[4][1].endswith("log_errors_with_peer_id")
            ctx.require(ok, "R-FLOW", "dispatch:set_errors-args", "set_errors(&e, &instr.to_string(), None, instr.log_errors_with_peer_id())", "set_errors args are %s" % [show(z)[:60] for z in a[1:]])
    # Call::execute
    ce = [f for f in F.impl_fns("ExecutableInstruction", "::Call<'i>", "execute") if F.impl_of(f)["self"].endswith("::Call<'i>")]
    if ctx.require(len(ce) == 1, "R-SIBLING", "call:anchor", "Call::execute found", "Call::execute not found"):
        c0 = ce[0]
        cls = F.closures_of(c0)
        n = sum(len(cl.calls_to("instructions::call::set_errors")) for cl in cls)
        me = c0.calls_to("Result::map_err")
        ctx.require(n == 2 and len(me) == 2, "R-SIBLING", "call:two-failure-points", "both failure points of Call::execute are mapped through call::set_errors",
                    "Call::execute maps %d failure points through set_errors (map_err sites: %d)" % (n, len(me)))
        cp = Prov(c0)
        for m in me:
            src = cp.operand(m.args[0])
            ctx.require(lib.mentions_call(src, "ResolvedCall::new") or lib.mentions_call(src, "ResolvedCall::execute"), "R-FLOW", "call:map_err-source:" + ("new" if lib.mentions_call(src, "ResolvedCall::new") and not lib.mentions_call(src, "ResolvedCall::execute") else "execute"),
                        "map_err applied to the fallible step's result", "map_err applied to `%s`" % show(src)[:100])
        ctx.require(all(lib.err_propagates(c0, m) for m in me), "R-MUST", "call:returned", "mapped errors are returned", "Call::execute swallows a mapped error")
    cs_ = F.fn("instructions::call::set_errors")
    sp = Prov(cs_)
    rows = {}
    for st in lib.enumerate_paths(cs_, sp, max_paths=60000):
        var = [v for k, v in st.variants.items() if v in ("Catchable", "Uncatchable") and k[0] == 3]
        if not var:
            continue
        e = PathProv(cs_, st.blocks).local(0)
        ret = "same" if (e[0] == "param" and e[1] == "execution_error") else ("Catchable(same)" if e[0] == "agg" and e[2] == "Catchable" and lib.mentions_param(e, "execution_error") else show(e)[:60])
        rows.setdefault(var[0], set()).add((len(lib.path_calls(st, "ExecutionCtx::set_errors")), ret))
    ctx.require(rows == {"Catchable": {(1, "Catchable(same)")}, "Uncatchable": {(0, "same")}}, "R-TABLE", "call:set_errors-table",
                "Catchable -> set_errors once, same error returned; Uncatchable -> returned untouched", "call::set_errors table is %s" % rows, sample={"table": {k: sorted(map(str, v)) for k, v in rows.items()}})
    # 3. faithful object
    g = F.fn("errors_utils::get_instruction_error_from_exec_error")
    gp = Prov(g)
    c = g.calls_to("errors_utils::get_instruction_error_from_ingredients")
    ok = len(c) == 1
    if ok:
        a = [gp.operand(z) for z in c[0].args]
        ok = a[0][0] == "call" and a[0][1].endswith("to_error_code") and a[0][2][0][0] == "param" and a[0][2][0][1] == "error" and \
            a[1][0] == "call" and a[1][1].endswith("to_string") and a[1][2][0][0] == "param" and a[1][2][0][1] == "error" and \
            a[2][0] == "param" and a[2][1] == "instruction" and a[3][0] == "param" and a[4][0] == "param"
    ctx.require(ok, "R-SIBLING", "faithful:error-object", "error object: code := error.to_error_code(), message := error.to_string()", "get_instruction_error_from_exec_error changed shape")
    fe = F.fn("outcome::from_execution_error")
    fep = Prov(fe)
    c = fe.calls_to("outcome::populate_outcome_from_contexts")
    ok = len(c) == 1
    if ok:
        a = [fep.operand(z) for z in c[0].args]
        ok = a[2][0] == "call" and a[2][1].endswith("to_error_code") and a[2][2][0][0] == "param" and a[2][2][0][1] == "error" and \
            a[3][0] == "call" and a[3][1].endswith("to_string") and a[3][2][0][0] == "param" and a[3][2][0][1] == "error"
    ctx.require(ok, "R-SIBLING", "faithful:outcome", "outcome: ret_code := error.to_error_code(), message := error.to_string()", "from_execution_error changed shape")
    gi = F.fn("errors_utils::get_instruction_error_from_ingredients")
    rows = {}
    for st in lib.enumerate_paths(gi, max_paths=20000):
        var = [v for k, v in st.variants.items() if v in ("Some", "None") and k[0] == 4]
        rows[var[0] if var else None] = tuple(sorted({c_.path.split("::")[-1] for c_ in st.calls if "error_from_raw_fields" in c_.path}))
    ctx.require(rows == {"Some": ("error_from_raw_fields_w_peerid",), "None": ("error_from_raw_fields",)}, "R-TABLE", "faithful:peer-id-variant",
                "peer id present -> object with peer_id, else without", "get_instruction_error_from_ingredients table is %s" % rows)
    gip = Prov(gi)
    for c_ in gi.calls:
        if "error_from_raw_fields" in c_.path:
            a = [gip.operand(z) for z in c_.args]
            ctx.require(a[0][0] == "param" and a[0][1] == "error_code" and a[1][0] == "param" and a[1][1] == "error_message" and a[2][0] == "param" and a[2][1] == "instruction",
                        "R-FLOW", "faithful:fields:" + c_.path.split("::")[-1], "(error_code, message, instruction) passed in order", "%s is given %s" % (c_.path, [show(z) for z in a]))

    # 4. flags
    se = F.fn("context::ExecutionCtx::set_errors")
    dis = se.calls_to("ErrorDescriptor::disable_error_setting")
    ctx.require(len(dis) == 1 and all(se.dominates(dis[0].bb, r) for r in se.returns), "R-TABLE", "flags:set_errors-disables", "set_errors always ends with disable_error_setting", "set_errors no longer disables error setting on every path")
    t1 = se.calls_to("LastErrorDescriptor::try_to_set_last_error_from_exec_error")
    t2 = se.calls_to("ErrorDescriptor::try_to_set_error_from_exec_error")
    ok = len(t1) == 1 and len(t2) == 1 and all(se.dominates(t.bb, r) for t in t1 + t2 for r in se.returns) and se.dominates(t2[0].bb, dis[0].bb)
    ctx.require(ok, "R-MUST", "flags:set_errors-sets-both", "set_errors tries %last_error% and :error: on every path, then disables", "set_errors no longer updates both error variables")
    sep = Prov(se)
    for t in t1 + t2:
        a = sep.operand(t.args[1])
        b = sep.operand(t.args[2])
        ctx.require(a[0] == "param" and a[1] == "error" and b[0] == "param" and b[1] == "instruction", "R-FLOW", "flags:set_errors-args:" + t.path.split("::")[-1], "same error and instruction text forwarded", "set_errors forwards (%s, %s)" % (show(a), show(b)))
    for fname, flagfield, aff in (("error_descriptor::ErrorDescriptor::try_to_set_error_from_exec_error", "error_can_be_set", "affects_error"),
                                  ("last_error_descriptor::LastErrorDescriptor::try_to_set_last_error_from_exec_error", "error_can_be_set", "affects_last_error")):
        fn = F.fn(fname)
        p = Prov(fn)
        rows = set()
        for st in lib.enumerate_paths(fn, p, max_paths=20000):
            can = None
            affects = None
            for br, val in st.conds:
                if isinstance(br, str):
                    continue
                s = show(br.expr)
                if flagfield in s:
                    can = val
                if aff in s:
                    affects = val
            rows.add((can, affects, len(lib.path_calls(st, "get_instruction_error_from_exec_error"))))
        want = {(False, None, 0), (True, False, 0), (True, True, 1)}
        ctx.require(rows == want, "R-TABLE", "flags:" + fname.split("::")[-1], "sets the error iff error_can_be_set && %s()" % aff, "%s table is %s" % (fname, sorted(map(str, rows))), sample={"fn": fname, "rows": sorted(map(str, rows))})
    al = F.impl_fn("ErrorAffectable", "CatchableError", "affects_last_error", exact_self="CatchableError")
    rows = {}
    for st in lib.enumerate_paths(al):
        var = st.variants.get((1, ()))
        e = PathProv(al, st.blocks).local(0)
        rows.setdefault(show(e), set()).add(var)
    falses = set()
    for k, v in rows.items():
        if k in ("false", "Not(true)"):
            falses |= v
    e_all = Prov(al).local(0)
    allv = {v["name"] for v in F.adt("catchable_errors::CatchableError")["variants"]}
    # robust formulation: variants constrained on paths returning false
    fv = set()
    for st in lib.enumerate_paths(al):
        var = st.variants.get((1, ()))
        pe = PathProv(al, st.blocks).local(0)
        val = None
        for s in walk(pe):
            if s[0] == "const" and s[2] in ("0", "1"):
                val = s[2]
        neg = any(s[0] == "un" and s[1] == "Not" for s in walk(pe))
        if val is not None:
            truth = (val == "1") != neg
            if not truth and var:
                fv.add(var)
    ctx.require(fv == {"MatchValuesNotEqual", "MismatchValuesEqual"}, "R-TABLE", "flags:affects_last_error", "affects_last_error is false exactly for match/mismatch", "affects_last_error is false for %s" % sorted(fv))
    for nm, field, val in (("last_error_descriptor::LastErrorDescriptor::meet_xor_right_branch", "error_can_be_set", "1"),
                           ("error_descriptor::ErrorDescriptor::enable_error_setting", "error_can_be_set", "1"),
                           ("error_descriptor::ErrorDescriptor::disable_error_setting", "error_can_be_set", "0")):
        fn = F.fn(nm)
        wr = [(bi, s) for bi, si, s in fn.stmts() if lib.place_fields(s["lhs"]) and lib.place_fields(s["lhs"])[-1][1] == field]
        ok = len(wr) == 1 and wr[0][1]["rv"]["k"] == "use" and wr[0][1]["rv"]["op"].get("const", {}).get("v") == val
        ctx.require(ok, "R-TABLE", "flags:" + nm.split("::")[-1], "%s sets %s := %s" % (nm.split("::")[-1], field, val), "%s changed" % nm)


    # 5. faithfulness across par.  The first catchable failure met below an xor's left branch is the one written to
    # :error: / %last_error%, and recording it switches further recording off (set_errors ends with
    # disable_error_setting).  So (a) when both branches of a par fail, the error par RETURNS — the one an uncaught
    # run reports — must be that first, recorded one, i.e. the left branch's; (b) wherever a swallowed failure makes
    # %last_error% recordable again (xor's right branch, par ending with a successful branch), :error: is made
    # recordable again on the same path, otherwise a later failure is reported uncaught but the caught :error: still
    # shows the swallowed one.
    ctx.clause("R-TABLE par: both branches failed -> returns the LEFT (first recorded) error; R-SIBLING every site that re-enables %last_error% recording also re-enables :error: recording")
    pr = F.fn("par::prepare_par_result")
    rows = {}
    for st in lib.enumerate_paths(pr, max_paths=20000):
        res = lib.path_result(pr, st)
        if res != "Err":
            continue
        e = lib.PathProv(pr, st.blocks).local(0)
        src = "left" if lib.mentions_param(e, "left_result") and not lib.mentions_param(e, "right_result") else \
            "right" if lib.mentions_param(e, "right_result") and not lib.mentions_param(e, "left_result") else "?"
        rows.setdefault(src, 0)
        rows[src] += 1
    ctx.require(set(rows) == {"left"}, "R-TABLE", "par:both-failed-returns-recorded", "par with two failed branches returns the left branch's error (the one recorded in :error:)",
                "prepare_par_result returns the %s branch's error when both branches failed, but :error: and %%last_error%% hold the LEFT branch's failure (recording is switched off "
                "after the first): inside an enclosing xor the error object differs from what the same failure reports uncaught" % sorted(rows),
                sample={"returns": sorted(rows)})
    reen = ("LastErrorDescriptor::meet_xor_right_branch", "LastErrorDescriptor::meet_par_successed_end")
    n_sites = 0
    for g in F.fns.values():
        if g.crate != "air":
            continue
        for c_ in g.calls_to(lambda c: c.path.endswith(reen)):
            n_sites += 1
            en = g.calls_to("ErrorDescriptor::enable_error_setting")
            ok = bool(en) and (any(g.dominates(c_.bb, e_.bb) for e_ in en) or any(g.dominates(e_.bb, c_.bb) for e_ in en)) and \
                g.must_pass(c_.target, [e_.bb for e_ in en] + [b for b in g.returns if any(g.dominates(e_.bb, b) for e_ in en)])
            ctx.require(ok, "R-SIBLING", "error-setting:paired:%s:%s" % (g.path.split("::")[-1], c_.path.split("::")[-1]),
                        "%s: %s is accompanied by error_descriptor.enable_error_setting()" % (g.path.split("::")[-1], c_.path.split("::")[-1]),
                        "%s re-enables %%last_error%% recording (%s) without re-enabling :error: recording: after a failure swallowed there, a later failure is reported by an uncaught run "
                        "but an enclosing xor's :error: still shows the swallowed one" % (g.path, c_.path.split("::")[-1]), sample={"fn": g.path})
    ctx.floor("R-SIBLING", "sites re-enabling %last_error% recording", n_sites, 2)


    # 6. recording is switched off only for an error that is already recorded.  `disable_error_setting` is called (a) at
    # the end of set_errors, after both descriptors were written, and (b) by `(fail :error:)` to re-throw :error: as is.
    # A freshly raised error must still be recordable by the enclosing `execute!`, so no path that leaves the function
    # through a `?` (a new error) may have passed `disable_error_setting` first.
    ctx.clause("R-PAIR disable_error_setting is never followed by a freshly raised (`?`-propagated) error in the same function")
    n_dis = 0
    for g in F.fns.values():
        if g.crate != "air":
            continue
        for c_ in g.calls_to("ErrorDescriptor::disable_error_setting"):
            n_dis += 1
            after = g.reach_after(c_.bb)
            fresh = [x for x in g.calls if x.bb in after and lib.is_from_residual(x.path)]
            ctx.require(not fresh, "R-PAIR", "error-setting:no-fresh-error-after-disable:" + g.path.split("::")[-1],
                        "%s: nothing fallible runs after error recording is switched off" % g.path.split("::")[-1],
                        "%s switches error recording off (disable_error_setting) and can afterwards leave with a freshly raised error (`?` at %s): that failure is reported by the run "
                        "but never written to :error:, so an enclosing xor sees the no-error object" % (g.path, [x.loc() for x in fresh][:2]), sample={"fn": g.path})
    ctx.floor("R-PAIR", "disable_error_setting sites", n_dis, 2)
