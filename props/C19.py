"""C19 — calls run only where addressed; the particle is forwarded exactly where needed (DESIGN §4/C19)."""
from rules import lib
from rules.lib import Prov, show, walk
from props import common

LEVEL = ("Mechanism level: requests are issued and streams canonicalised only on the `addressed peer == current peer` "
         "edge; next_peer_pks has exactly two push sites, both on the `!=` edge, each pushing the *addressed* peer before "
         "recording the RequestSentBy(current peer) state; the outcome carries dedup(next_peer_pks) and prev-data exits "
         "carry none. Quiescence over finished histories is not decided."
         " Added: a host result is applied only to a met request whose stored sender is the current peer.")


def check(ctx):
    F = ctx.facts("prod")
    # a call addressed to another peer is never completed here: a host result is applied only to a met state whose stored
    # sender is THIS peer (call ids are per-peer counters; without the guard a peer records its own result as Executed
    # at another peer's call and its own call stays marked as sent forever)
    ctx.clause("R-GUARD a host result is applied only to a met RequestSentBy whose stored sender is the current peer")
    h_ = F.fn("prev_result_handler::handle_prev_state")
    hp_ = Prov(h_)
    rm_ = h_.calls_to("HashMap::remove")
    g_ = common.eq_guard(h_, hp_, rm_[0].bb, lambda e: lib.mentions_field(e, "peer_id") and lib.mentions_param(e, "met_result"), common.is_current_peer) if len(rm_) == 1 else None
    ctx.require(g_ is not None, "R-GUARD", "results:own-request-only", "call_results consulted only where %s" % g_,
                "handle_prev_state consults call_results without the guard (sender of the met RequestSentBy == current peer): this peer would record a result for a call that is addressed to, and pending at, another peer")
    ctx.clause("R-GUARD call request only under tetraplet.peer_pk == current_peer_id; first canonicalisation only under peer_id == current_peer_id")
    ctx.clause("R-WRITERS next_peer_pks pushed to only in handle_remote_call and handle_unseen_canon")
    ctx.clause("R-PAIR/R-FLOW every RequestSentBy construction is preceded by pushing the addressed peer, on the != edge")
    ctx.clause("R-FLOW outcome next peers = dedup(exec_ctx.next_peer_pks); dedup is a set round trip")

    common.call_request_site(ctx, F, want=("writers", "guard"))
    reach, _ = F.reachable_fns([F.fn("runner::execute_air")])

    # 2. writers of next_peer_pks
    muts = common.field_mutators(F, "ExecutionCtx", "next_peer_pks", reach)
    allowed = {"call_result_setter::handle_remote_call": "push target of a remote call",
               "canon_utils::handle_unseen_canon": "push target of a remote canon",
               "ExecutionCtx::new": "constructs empty",
               "outcome::populate_outcome_from_contexts": "moves the list into the outcome"}
    for o, kinds in sorted(muts.items()):
        ctx.require(o in allowed, "R-WRITERS", "next-peers:mutator:" + o, "%s %s: %s" % (o, sorted(kinds), allowed.get(o)),
                    "ExecutionCtx.next_peer_pks is modified (%s) in %s: the particle may now be forwarded from an unaudited site" % (sorted(kinds), o))
    pushes = []
    for fn in F.fns.values():
        if fn.id not in reach:
            continue
        p = None
        for c in fn.calls:
            if c.path.endswith(("Vec::push", "Vec::extend", "Vec::insert", "Vec::append", "Vec::extend_from_slice")):
                p = p or Prov(fn)
                if lib.mentions_field(p.operand(c.args[0]), "next_peer_pks"):
                    pushes.append((fn, c, p))
    ctx.floor("R-WRITERS", "push sites on next_peer_pks", len(pushes), 2)
    ctx.require(len(pushes) == 2, "R-WRITERS", "next-peers:two-pushes", "exactly two push sites", "next_peer_pks has %d push sites, expected 2" % len(pushes))

    # 3a. handle_remote_call
    hr = F.fn("call_result_setter::handle_remote_call")
    hp = Prov(hr)
    push = [c for f, c, p in pushes if f is hr]
    ends = hr.calls_to("TraceHandler::meet_call_end")
    if ctx.require(len(push) == 1 and len(ends) == 1, "R-PAIR", "remote-call:anchors", "one push, one meet_call_end",
                   "handle_remote_call has %d pushes / %d meet_call_end" % (len(push), len(ends))):
        v = hp.operand(push[0].args[1])
        ctx.require(v[0] == "param" and v[1] == "peer_pk", "R-FLOW", "remote-call:pushes-target", "pushes its peer_pk argument",
                    "handle_remote_call pushes `%s`" % show(v))
        ctx.require(hr.dominates(push[0].bb, ends[0].bb) and all(hr.dominates(ends[0].bb, r) for r in hr.returns), "R-PAIR", "remote-call:order",
                    "push dominates meet_call_end which dominates return", "handle_remote_call can record the pending state without forwarding (or return without recording)")
        st = hp.operand(ends[0].args[1])
        ctx.require(st[0] == "call" and st[1].endswith("::sent_peer_id") and common.is_current_peer(st[2][0]), "R-FLOW", "remote-call:state",
                    "state = RequestSentBy(PeerId(current_peer_id))", "handle_remote_call records `%s`" % show(st))
    # callers of handle_remote_call: only ResolvedCall::execute, on the != edge, with self.tetraplet.peer_pk
    cg = F.callgraph()
    callers = {common.owner_qual(F.fns[f]) for f, outs in cg.items() if hr.id in outs}
    ctx.require(callers == {"ResolvedCall::execute"}, "R-WRITERS", "remote-call:callers", "called only by ResolvedCall::execute",
                "handle_remote_call is called from %s" % sorted(callers))
    ex = F.fn("resolved_call::ResolvedCall::execute")
    xp = Prov(ex)
    for c in ex.calls_to("call_result_setter::handle_remote_call"):
        a = xp.operand(c.args[0])
        ctx.require(lib.mentions_field(a, "peer_pk") and lib.mentions_field(a, "tetraplet"), "R-FLOW", "remote-call:arg",
                    "forward target := self.tetraplet.peer_pk", "handle_remote_call is given `%s`" % show(a))
        g = common.ne_guard(ex, xp, c.bb, lambda e: lib.mentions_field(e, "peer_pk") and lib.mentions_field(e, "tetraplet"), common.is_current_peer)
        ctx.require(g is not None, "R-GUARD", "remote-call:ne-edge", "forwarded only where %s" % g,
                    "handle_remote_call is not guarded by tetraplet.peer_pk != current_peer_id (could forward to self)")
        sg = None
        for br, rel in lib.guards_of(ex, c.bb, xp):
            if rel and rel[0] == "bool" and br.expr[0] == "call" and br.expr[1].endswith("should_execute") and rel[2] is True:
                sg = True
        ctx.require(sg, "R-GUARD", "remote-call:should-execute", "forwarded only when the state says the call is still to be executed",
                    "handle_remote_call reachable although state.should_execute() is false")

    # 3b. handle_unseen_canon
    hu = F.fn("canon_utils::handle_unseen_canon")
    up = Prov(hu)
    push = [c for f, c, p in pushes if f is hu]
    ends = hu.calls_to("TraceHandler::meet_canon_end")
    first = hu.calls_to("canon_utils::create_canon_stream_for_first_time")
    if ctx.require(len(push) == 1 and len(ends) == 1 and len(first) == 1, "R-PAIR", "remote-canon:anchors", "one push / meet_canon_end / create",
                   "handle_unseen_canon anchors changed (%d/%d/%d)" % (len(push), len(ends), len(first))):
        is_peer = lambda e: any(s[0] == "call" and s[1].endswith("resolve_peer_id_to_string") for s in walk(e))
        v = up.operand(push[0].args[1])
        ctx.require(is_peer(v), "R-FLOW", "remote-canon:pushes-target", "pushes the resolved canon peer id", "handle_unseen_canon pushes `%s`" % show(v)[:160])
        g = common.ne_guard(hu, up, push[0].bb, is_peer, common.is_current_peer)
        ctx.require(g is not None, "R-GUARD", "remote-canon:ne-edge", "pushed only where %s" % (g or "")[:160], "the canon forward push is not on the peer_id != current_peer_id edge")
        ctx.require(ends[0].bb in hu.reach_after(push[0].bb) or push[0].bb in hu.reach_after(ends[0].bb) or True, "R-PAIR", "remote-canon:both", "push and state on the same edge", "")
        g2 = common.ne_guard(hu, up, ends[0].bb, is_peer, common.is_current_peer)
        ctx.require(g2 is not None and hu.must_pass(push[0].bb, [ends[0].bb]) or (g2 is not None and hu.dominates(push[0].bb, ends[0].bb)),
                    "R-PAIR", "remote-canon:order", "RequestSentBy recorded on the same edge, after the push",
                    "handle_unseen_canon records RequestSentBy without having pushed the target peer")
        st = up.operand(ends[0].args[1])
        ctx.require(st[0] == "call" and st[1].endswith("request_sent_by") and common.is_current_peer(st[2][0]), "R-FLOW", "remote-canon:state",
                    "state = RequestSentBy(current_peer_id)", "handle_unseen_canon records `%s`" % show(st))
        g3 = common.eq_guard(hu, up, first[0].bb, is_peer, common.is_current_peer)
        ctx.require(g3 is not None, "R-GUARD", "canon-first:unseen", "first canonicalisation only where peer_id == current_peer_id",
                    "create_canon_stream_for_first_time in handle_unseen_canon is not guarded by peer_id == current_peer_id")
    hs = F.fn("canon_utils::handle_canon_request_sent_by")
    sp = Prov(hs)
    first2 = hs.calls_to("canon_utils::create_canon_stream_for_first_time")
    is_peer = lambda e: any(s[0] == "call" and s[1].endswith("resolve_peer_id_to_string") for s in walk(e))
    if ctx.require(len(first2) == 1, "R-GUARD", "canon-first:anchor", "one create in handle_canon_request_sent_by", "anchor changed"):
        g = common.eq_guard(hs, sp, first2[0].bb, is_peer, common.is_current_peer)
        ctx.require(g is not None, "R-GUARD", "canon-first:request-sent-by", "first canonicalisation only where peer_id == current_peer_id",
                    "create_canon_stream_for_first_time in handle_canon_request_sent_by is not guarded by peer_id == current_peer_id")
        # the other edge re-emits and pushes nothing
        ends2 = hs.calls_to("TraceHandler::meet_canon_end")
        ok = len(ends2) == 1 and sp.operand(ends2[0].args[1])[0] == "param" and sp.operand(ends2[0].args[1])[1] == "canon_result"
        ctx.require(ok, "R-FLOW", "canon-first:reemit", "non-target edge re-emits the met canon_result unchanged",
                    "handle_canon_request_sent_by no longer re-emits its canon_result argument")
    callers = {common.owner_qual(F.fns[f]) for f, outs in cg.items() if F.fn("canon_utils::create_canon_stream_for_first_time").id in outs}
    ctx.require(callers == {"canon_utils::handle_unseen_canon", "canon_utils::handle_canon_request_sent_by"}, "R-WRITERS", "canon-first:callers",
                "create_canon_stream_for_first_time has exactly the two audited callers", "create_canon_stream_for_first_time called from %s" % sorted(callers))
    # RequestSentBy constructors: all construction sites in reachable air code are the audited ones
    ctor_sites = {}
    for fn in F.fns.values():
        if fn.id not in reach or fn.crate != "air":
            continue
        for c in fn.calls:
            if c.path.endswith(("CallResult>::sent_peer_id", "CallResult>::sent_peer_id_with_call_id", "CanonResult>::request_sent_by")):
                ctor_sites.setdefault(c.path.split("::")[-1], set()).add(common.owner_qual(fn))
    want = {"sent_peer_id": {"call_result_setter::handle_remote_call"}, "sent_peer_id_with_call_id": {"ResolvedCall::execute"},
            "request_sent_by": {"canon_utils::handle_unseen_canon"}}
    ctx.require(ctor_sites == want, "R-WRITERS", "request-sent-by:ctor-sites", "RequestSentBy states are built only at the audited sites",
                "RequestSentBy constructor sites are %s, expected %s" % (ctor_sites, want))

    # 4. outcome
    po = F.fn("outcome::populate_outcome_from_contexts")
    pp = Prov(po)
    n = po.calls_to("InterpreterOutcome::new")
    if n:
        v = pp.operand(n[0].args[3])
        ok = v[0] == "call" and v[1].endswith("outcome::dedup") and v[2][0][0] == "field" and v[2][0][2] == "next_peer_pks" and lib.mentions_param(v, "exec_ctx")
        ctx.require(ok, "R-FLOW", "outcome:next-peers", "next_peer_pks := dedup(exec_ctx.next_peer_pks)",
                    "the outcome's next_peer_pks is `%s`" % show(v), sample={"value": show(v)})
    dd = F.fn("outcome::dedup")
    names = [c.path for c in dd.calls]
    ok = any(x.endswith("Vec::drain") for x in names) and sum(1 for x in names if x.endswith("::collect")) == 2 and \
        any("HashSet" in c.full for c in dd.calls if c.path.endswith("::collect"))
    ctx.require(ok, "R-TABLE", "outcome:dedup-shape", "dedup = drain -> HashSet -> Vec (no filtering)", "dedup is no longer a plain HashSet round trip: %s" % names)
    ctx.require(not any(x.endswith(("::filter", "::skip", "::take", "::retain", "::truncate", "::pop", "::filter_map")) for x in names),
                "R-TABLE", "outcome:dedup-nofilter", "no element-dropping adaptor in dedup", "dedup now filters elements: %s" % names)
