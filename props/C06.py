"""C06 — call request ids are fresh and results reach the call that requested them (DESIGN §4/C06)."""
from rules import lib
from rules.lib import Prov, show, walk
from props import common, mergetab, sides

LEVEL = ("Structural premises from which freshness and routing follow by a short argument: the id counter has two "
         "writers (constructor seeded from the PREVIOUS data's last id; next_call_request_id = field+1 returning the "
         "updated field), the same id value keys the request and is persisted in the pending state, the produced data "
         "stores the counter, and a result is looked up only by the id stored in the met state under the own-sender guard. "
         "Decides those shapes; host misuse and u32 wrap are out of scope."
         " Added: the own pending mark survives a merge; every failed-run exit returns the untouched previous data (which holds the counter); R-SIDES.")


def check(ctx):
    F = ctx.facts("prod")
    sides.check_sides(ctx, F)
    ctx.clause("R-WRITERS last_call_request_id written only by ExecutionCtx::new and next_call_request_id")
    ctx.clause("R-FLOW seed = prev_ingredients.last_call_request_id; prepare builds prev_ingredients from prev_data")
    ctx.clause("R-OP next_call_request_id: field := field + 1, returns the updated field")
    ctx.clause("R-FLOW request key and persisted call_id are the same value; envelope stores the counter")
    ctx.clause("R-FLOW/R-GUARD result lookup keyed by the met state's own call_id under the own-sender guard")
    ctx.clause("R-TABLE from_success_result: leftover call results -> UnprocessedCallResult, data still produced")
    ctx.clause("R-TABLE/R-FLOW persistence between runs: merge keeps the own pending mark (RequestSentBy/RequestSentBy -> previous); every failed-run exit returns the untouched previous data (which holds the counter)")

    reach, _ = F.reachable_fns([F.fn("runner::execute_air")])
    muts = common.field_mutators(F, "ExecutionCtx", "last_call_request_id", None)
    allowed = {"ExecutionCtx::next_call_request_id", "ExecutionCtx::new"}
    for o, kinds in sorted(muts.items()):
        ctx.require(o in allowed or kinds == {"move"} and o == "outcome::populate_outcome_from_contexts", "R-WRITERS", "counter:mutator:" + o,
                    "%s %s" % (o, sorted(kinds)),
                    "ExecutionCtx.last_call_request_id is modified (%s) in %s" % (sorted(kinds), o))
    ctx.floor("R-WRITERS", "writers of last_call_request_id", len([o for o in muts if o in allowed]), 1)

    new = F.fn("context::ExecutionCtx::new")
    np_ = Prov(new)
    e = np_.local(0)
    aggs = [s for s in walk(e) if s[0] == "agg" and s[1].endswith("ExecutionCtx")]
    if ctx.require(len(aggs) == 1, "R-FLOW", "counter:ctor", "one ExecutionCtx aggregate", "ExecutionCtx::new construction changed"):
        v = aggs[0][3].get("last_call_request_id")
        ok = v is not None and v[0] == "field" and v[2] == "last_call_request_id" and v[1][0] == "param" and v[1][1] == "prev_ingredients"
        ctx.require(ok, "R-FLOW", "counter:seed-from-prev", "seed := prev_ingredients.last_call_request_id",
                    "ExecutionCtx::new seeds last_call_request_id from `%s`, expected prev_ingredients.last_call_request_id" % (show(v) if v else None),
                    sample={"seed": show(v) if v else None})
        for fld, want in (("call_requests", None), ("next_peer_pks", None)):
            v2 = aggs[0][3].get(fld)
            ctx.require(v2 is not None and v2[0] == "call" and v2[1].endswith("Default>::default") or (v2 is not None and v2[0] == "call" and "default" in v2[1]),
                        "R-FLOW", "counter:ctor-empty-" + fld, "%s starts empty" % fld, "ExecutionCtx::new initialises %s with `%s`" % (fld, show(v2) if v2 else None))
    prep = F.fn("preparation::prepare")
    pp = Prov(prep)
    mk = prep.calls_to("preparation::make_exec_ctx")
    if ctx.require(len(mk) == 1, "R-FLOW", "counter:prepare-anchor", "prepare calls make_exec_ctx once", "prepare no longer calls make_exec_ctx once"):
        a0 = pp.operand(lib.arg_named(F, mk[0], "prev_ingredients", 0))
        a1 = pp.operand(lib.arg_named(F, mk[0], "current_ingredients", 1))
        ok0 = a0[0] == "agg" and a0[1].endswith("ExecCtxIngredients") and lib.mentions_param(a0[3]["last_call_request_id"], "prev_data") \
            and not lib.mentions_param(a0, "current_data")
        ok1 = a1[0] == "agg" and lib.mentions_param(a1[3]["last_call_request_id"], "current_data") and not lib.mentions_param(a1, "prev_data")
        ctx.require(ok0 and ok1, "R-FLOW", "counter:ingredients", "prev_ingredients from prev_data, current_ingredients from current_data",
                    "prepare builds ingredients (%s ; %s)" % (show(a0)[:160], show(a1)[:160]))
    mke = F.fn("preparation::make_exec_ctx")
    mp = Prov(mke)
    n = mke.calls_to("ExecutionCtx::new")
    if n:
        a = [mp.operand(x) for x in n[0].args]
        ctx.require(a[0][0] == "param" and a[0][1] == "prev_ingredients" and a[1][0] == "param" and a[1][1] == "current_ingredients",
                    "R-FLOW", "counter:make-ctx-order", "ExecutionCtx::new(prev_ingredients, current_ingredients, ..)",
                    "make_exec_ctx passes (%s, %s) to ExecutionCtx::new" % (show(a[0]), show(a[1])))
    ex = F.fn("runner::execute_air_impl")
    ep = Prov(ex)
    pc = ex.calls_to("preparation::prepare")
    if pc:
        a = [ep.operand(x) for x in pc[0].args]
        ok = lib.mentions_field(a[0], "prev_data") and lib.mentions_field(a[1], "current_data") and lib.mentions_call(a[0], "parse_data")
        ctx.require(ok, "R-FLOW", "counter:prepare-args", "prepare(prev_data, current_data, ..) from parse_data's pair",
                    "execute_air_impl passes (%s, %s) to prepare" % (show(a[0])[:100], show(a[1])[:100]))
    pd = ex.calls_to("preparation::parse_data")
    if pd:
        a = [ep.operand(x) for x in pd[0].args]
        ctx.require(a[0][0] == "param" and a[0][1] == "raw_prev_data" and a[1][0] == "param" and a[1][1] == "raw_current_data", "R-FLOW",
                    "counter:parse-args", "parse_data(raw_prev_data, raw_current_data)", "parse_data is given (%s, %s)" % (show(a[0]), show(a[1])))

    # next_call_request_id
    nx = F.fn("context::ExecutionCtx::next_call_request_id")
    xp = Prov(nx)
    writes = [(bi, s) for bi, si, s in nx.stmts() if lib.place_fields(s["lhs"]) and lib.place_fields(s["lhs"])[-1][1] == "last_call_request_id"]
    ok = len(writes) == 1
    if ok:
        w = xp._rv(writes[0][1]["rv"], 0, frozenset())
        adds = [s for s in walk(w) if s[0] == "bin" and s[1] in ("Add", "AddWithOverflow")]
        ok = len(adds) == 1 and adds[0][2][0] == "field" and adds[0][2][2] == "last_call_request_id" and adds[0][3][0] == "const" and adds[0][3][2] == "1"
    ctx.require(ok, "R-OP", "counter:incr", "self.last_call_request_id := self.last_call_request_id + 1",
                "next_call_request_id no longer increments the counter by exactly 1")
    r = xp.local(0)
    ctx.require(r[0] == "field" and r[2] == "last_call_request_id", "R-OP", "counter:returns-field", "returns the (updated) field",
                "next_call_request_id returns `%s`" % show(r))
    if writes:
        # the read for the return happens after the write: the return block is dominated by the write block
        ctx.require(all(nx.dominates(writes[0][0], b) for b in nx.returns), "R-OP", "counter:write-before-return",
                    "the increment dominates the return", "next_call_request_id can return without incrementing")

    # request key / persisted id / envelope
    common.call_request_site(ctx, F, want=("pair",))
    po = F.fn("outcome::populate_outcome_from_contexts")
    pp2 = Prov(po)
    fer = po.calls_to(lambda c: c.path.endswith("::from_execution_result"))
    if ctx.require(len(fer) == 1, "R-FLOW", "counter:envelope-anchor", "envelope built once", "from_execution_result call missing"):
        v = pp2.operand(fer[0].args[3])
        ctx.require(v[0] == "field" and v[2] == "last_call_request_id" and lib.mentions_param(v, "exec_ctx"), "R-FLOW", "counter:persisted",
                    "data.last_call_request_id := exec_ctx.last_call_request_id", "the produced data stores `%s` as last_call_request_id" % show(v))
    fe = F.fn("interpreter_data::InterpreterDataEnvelope::from_execution_result")
    fp = Prov(fe)
    aggs = [s for s in walk(fp.local(0)) if s[0] == "agg" and s[1].endswith("::InterpreterData")]
    ctx.require(len(aggs) == 1 and aggs[0][3]["last_call_request_id"][0] == "param" and aggs[0][3]["last_call_request_id"][1] == "last_call_request_id",
                "R-FLOW", "counter:envelope-field", "InterpreterData.last_call_request_id := argument", "from_execution_result mis-stores last_call_request_id")

    # the counter and the pending marks live in the peer's own data between runs: they survive (a) a merge with incoming
    # data and (b) a run that fails before execution (the host stores whatever data the outcome carries)
    mergetab.call_merge_keeps_pending_mark(ctx, F)
    common.farewell_sites(ctx, F)

    # routing
    h = F.fn("prev_result_handler::handle_prev_state")
    hp = Prov(h)
    rm = h.calls_to("HashMap::remove")
    if ctx.require(len(rm) == 1, "R-FLOW", "routing:anchor", "one call_results.remove", "call_results.remove sites: %d" % len(rm)):
        key = hp.operand(rm[0].args[1])
        ctx.require(lib.mentions_field(key, "call_id") and lib.mentions_param(key, "met_result") and
                    any(s[0] == "call" and s[1].endswith("to_string") for s in walk(key)), "R-FLOW", "routing:key",
                    "lookup key = met state's call_id.to_string()", "result lookup keyed by `%s`" % show(key), sample={"key": show(key)})
        g = common.eq_guard(h, hp, rm[0].bb, lambda e: lib.mentions_field(e, "peer_id") and lib.mentions_param(e, "met_result"), common.is_current_peer)
        ctx.require(g is not None, "R-GUARD", "routing:own-sender", "lookup only where %s" % g, "result lookup not guarded by own-sender check")
        # the result found is what update_state_with_service_result consumes
        us = h.calls_to("prev_result_handler::update_state_with_service_result")
        if ctx.require(len(us) == 1, "R-FLOW", "routing:consumer", "one update_state_with_service_result", "update_state_with_service_result calls changed"):
            a = hp.operand(us[0].args[3])
            ctx.require(any(s[0] == "call" and s[3] is rm[0] for s in walk(a)), "R-FLOW", "routing:result-flows",
                        "the removed result is the one applied", "update_state_with_service_result is given `%s`" % show(a)[:160])
            ctx.require(lib.guarded_by_ok(h, rm[0], us[0].bb), "R-GUARD", "routing:only-if-found", "applied only when a result was found",
                        "update_state_with_service_result reachable without a found result")
    # unprocessed results
    fs = F.fn("outcome::from_success_result")
    sp = Prov(fs)
    e = sp.operand(fs.calls_to("outcome::populate_outcome_from_contexts")[0].args[2])
    ok = e[0] == "phi" and any(x[0] == "const" and str(x[1]).endswith("INTERPRETER_SUCCESS") for x in e[1]) and \
        any(x[0] == "call" and x[1].endswith("to_error_code") and any(s[0] == "agg" and s[2] == "UnprocessedCallResult" for s in walk(x)) for x in e[1])
    ctx.require(ok, "R-TABLE", "unprocessed:code", "ret_code in {SUCCESS, code(UnprocessedCallResult)}", "from_success_result ret_code is `%s`" % show(e)[:200])
