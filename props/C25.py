"""C25 — content ids are canonical and verification accepts exactly the matching pairs (DESIGN §4/C25)."""
import subprocess

from rules import lib, facts
from rules.lib import Prov, PathProv, show, walk

LEVEL = ("Mechanism level: JSON objects of the interpreter's value type are BTreeMap-backed (resolved field type) and no "
         "preserve_order feature is enabled anywhere in the resolved feature graph, so serialisation — and with it the CID — "
         "does not depend on insertion order; the CID is BLAKE3-256 over serde_json::to_writer of the value (raw bytes for raw "
         "values), multihash Blake3_256, CIDv1 with the JSON codec 0x0200; both verifiers reject other codecs, whitelist "
         "{Sha2_256, Blake3_256}, and accept iff the freshly computed digest equals the WHOLE multihash digest (no slicing or "
         "prefix comparison). Canonicity of serde_json's number formatting and collision resistance are not decided."
         " Added: the Serialize table of JValue with numbers delegated to Number::serialize (the bytes that are hashed).")

SLICERS = ("::starts_with", "::ends_with", "::get", "::get_mut", "::truncate", "::split_at", "::take", "::first", "::last", "::chunks", "::windows",
           "::zip", "::contains", "::len", "::resize", "::split_off")


def check(ctx):
    F = ctx.facts("prod")
    from props import C26
    ctx.clause("R-TABLE Serialize for JValue: per-variant serializer table, numbers delegated to Number::serialize (the bytes that are hashed / encoded)")
    C26.serialize_table(ctx, F)
    ctx.clause("R-TYPE JValue::Object resolves to BTreeMap; R-CFG no preserve_order feature in the resolved graph")
    ctx.clause("R-FLOW/R-CONST value_to_json_cid / raw_value_to_json_cid: BLAKE3 over the canonical bytes, Blake3_256 multihash, CIDv1, codec 0x0200")
    ctx.clause("R-OP/R-TABLE/R-SIBLING verify_raw_value and verify_json_value: codec guard, hash whitelist, whole-digest equality")

    jv = F.adt("air_interpreter_value::value::JValue")
    obj = [v for v in jv["variants"] if v["name"] == "Object"]
    ok = len(obj) == 1 and "alloc::collections::btree::map::BTreeMap<" in obj[0]["fields"][0]["ty"]
    ctx.require(ok, "R-TYPE", "object:btreemap", "JValue::Object is %s" % (obj[0]["fields"][0]["ty"] if obj else None),
                "JValue::Object is no longer backed by a BTreeMap (%s): serialisation order, and therefore CIDs, depend on insertion order" % (obj[0]["fields"][0]["ty"] if obj else None),
                sample={"type": obj[0]["fields"][0]["ty"] if obj else None})
    r = subprocess.run(["cargo", "tree", "--offline", "-e", "features", "-p", "aquavm-air", "-p", "air-interpreter", "--features", "aquavm-air/check_signatures,aquavm-air/gen_signatures"],
                       cwd=facts.REPO, stdout=subprocess.PIPE, stderr=subprocess.PIPE, text=True)
    if r.returncode != 0:
        r = subprocess.run(["cargo", "tree", "--offline", "-e", "features", "--workspace"], cwd=facts.REPO, stdout=subprocess.PIPE, stderr=subprocess.PIPE, text=True)
    if ctx.require(r.returncode == 0 and len(r.stdout) > 1000, "R-CFG", "features:tree", "cargo tree -e features resolved (%d lines)" % len(r.stdout.splitlines()), "cargo tree failed: %s" % r.stderr[-300:]):
        bad = sorted({l.strip(" │├└─") for l in r.stdout.splitlines() if 'feature "preserve_order"' in l})
        ctx.require(not bad, "R-CFG", "features:no-preserve-order", "no crate is built with a preserve_order feature", "preserve_order is enabled in the resolved feature graph: %s" % bad[:3])
    c = F.const("air_interpreter_cid::JSON_CODEC")
    ctx.require(c["val"] == "512", "R-CONST", "codec:json", "JSON_CODEC == 0x0200", "JSON_CODEC is %s" % c["val"])

    # CID computation
    for name, hasher_fn, src in (("air_interpreter_cid::value_to_json_cid", "air_interpreter_cid::value_json_hash", "value"), ("air_interpreter_cid::raw_value_to_json_cid", "air_interpreter_cid::raw_value_hash", "raw_value")):
        f = F.fn(name)
        p = Prov(f)
        hc = f.calls_to(hasher_fn)
        wrap = [c_ for c_ in f.calls if c_.path.endswith("MultihashDigest>::wrap") or c_.path.endswith("::wrap")]
        new = [c_ for c_ in f.calls if c_.path.endswith("Cid::new_v1")]
        ok = len(hc) == 1 and len(wrap) == 1 and len(new) == 1
        if ok:
            ok = ("blake3::Hasher" in hc[0].full or "blake3" in hc[0].full) and p.operand(hc[0].args[0])[0] == "param" and p.operand(hc[0].args[0])[1] == src
            code = p.operand(wrap[0].args[0])
            ok = ok and ((code[0] == "agg" and code[2] == "Blake3_256") or show(code).endswith("Blake3_256")) and any(s[0] == "call" and s[3] is hc[0] for s in walk(p.operand(wrap[0].args[1])))
            cod = p.operand(new[0].args[0])
            ok = ok and cod[0] == "const" and str(cod[1]).endswith("JSON_CODEC") and any(s[0] == "call" and s[3] is wrap[0] for s in walk(p.operand(new[0].args[1])))
            r0 = p.local(0)
            ok = ok and any(s[0] == "call" and s[3] is new[0] for s in walk(r0))
        ctx.require(ok, "R-FLOW", "cid:" + name.split("::")[-1], "%s = CIDv1(JSON_CODEC, Blake3_256.wrap(blake3(%s)))" % (name.split("::")[-1], src),
                    "%s no longer computes CIDv1(JSON_CODEC, Blake3_256(blake3 of %s))" % (name, src), sample={"fn": name})
    vh = F.fn("air_interpreter_cid::value_json_hash")
    vp = Prov(vh)
    tw = [c_ for c_ in vh.calls if c_.path.endswith("serde_json::ser::to_writer")]
    fin = [c_ for c_ in vh.calls if c_.path.endswith(("Digest>::finalize", "Digest::finalize"))]
    ok = len(tw) == 1 and len(fin) == 1 and vp.operand(tw[0].args[1])[0] == "param" and vp.operand(tw[0].args[1])[1] == "value" and lib.guarded_by_ok(vh, tw[0], fin[0].bb) \
        and any(s[0] == "call" and s[1].endswith(("Digest>::new", "Digest::new")) for s in walk(vp.operand(tw[0].args[0])))
    ctx.require(ok, "R-FLOW", "cid:value_json_hash", "digest of serde_json::to_writer(hasher, value), error propagated", "value_json_hash no longer hashes serde_json::to_writer(value)")
    rh = F.fn("air_interpreter_cid::raw_value_hash")
    rp = Prov(rh)
    up = [c_ for c_ in rh.calls if c_.path.endswith(("Digest>::update", "Digest::update"))]
    ok = len(up) == 1 and rp.operand(up[0].args[1])[0] == "param" and rp.operand(up[0].args[1])[1] == "raw_value" and len([c_ for c_ in rh.calls if c_.path.endswith(("Digest>::finalize", "Digest::finalize"))]) == 1
    ctx.require(ok, "R-FLOW", "cid:raw_value_hash", "digest of exactly the raw bytes", "raw_value_hash no longer hashes exactly the raw value")

    # verifiers
    vv = F.fn("air_interpreter_cid::verify::verify_value")
    rows = set()
    vvp = Prov(vv)
    for st in lib.enumerate_paths(vv, vvp, max_paths=20000):
        codec = None
        for br, val in st.conds:
            if isinstance(br, str) and br == "int":
                codec = val
        calls = tuple(sorted({c_.path.split("::")[-1] for c_ in st.calls if c_.path.endswith("verify_json_value")}))
        e = PathProv(vv, st.blocks).local(0)
        kind = "delegate" if calls else (e[3]["0"][2] if e[0] == "agg" and e[2] == "Err" and e[3]["0"][0] == "agg" else "err-propagated")
        rows.add((codec, kind))
    ok = ("512", "delegate") in rows and any(k == "UnsupportedCidCodec" for c_, k in rows) and not any(k == "delegate" and c_ != "512" for c_, k in rows)
    ctx.require(ok, "R-TABLE", "verify_value:codec", "verify_value: codec 0x0200 -> verify_json_value, otherwise UnsupportedCidCodec", "verify_value codec table is %s" % sorted(map(str, rows)))
    sib = {}
    for name in ("air_interpreter_cid::verify::verify_raw_value", "air_interpreter_cid::verify::verify_json_value"):
        f = F.fn(name)
        p = Prov(f)
        short = name.split("::")[-1]
        eqs = [c_ for c_ in f.calls if c_.path.endswith("::eq") and "PartialEq" in c_.path]
        helper = None
        if not eqs:
            # the final comparison may live in a tail helper shared by both verifiers: `helper(&computed, mhash, cid)`
            # whose result is the function's result.  The comparison is then judged inside the helper, with the helper's
            # parameters traced back to this function's arguments; reachability (whitelist) is judged at the helper call.
            cands = [c_ for c_ in f.calls if c_.cid in F.fns and F.fns[c_.cid].kind != "Closure" and lib.returns_call_result(f, c_)
                     and len([x for x in F.fns[c_.cid].calls if x.path.endswith("::eq") and "PartialEq" in x.path]) == 1]
            if len(cands) == 1:
                helper = (F.fns[cands[0].cid], cands[0])
                eqs = [x for x in helper[0].calls if x.path.endswith("::eq") and "PartialEq" in x.path]
        if not ctx.require(len(eqs) == 1, "R-OP", short + ":one-compare", "exactly one equality comparison", "%s has %d equality comparisons" % (name, len(eqs))):
            continue
        eq = eqs[0]
        if helper is not None:
            hf, hcall = helper
            hp_ = Prov(hf)
            outer_args = [p.operand(x) for x in hcall.args]
            a, b = lib.subst_params(hp_.operand(eq.args[0]), outer_args), lib.subst_params(hp_.operand(eq.args[1]), outer_args)
            # inside the helper: Ok iff equal, no slicing
            tblh = {}
            for st in lib.enumerate_paths(hf, hp_, max_paths=40000):
                ev = None
                for br, val in st.conds:
                    if not isinstance(br, str) and br.expr[0] == "call" and br.expr[3] is eq:
                        ev = val
                if ev is not None:
                    tblh.setdefault(ev, set()).add(lib.path_result(hf, st))
            slh = [c_.path for c_ in hf.calls if (any(c_.path.endswith(x) for x in SLICERS) or "core::ops::index::Index" in c_.path) and "PartialEq" not in c_.path]
            ctx.require(tblh == {True: {"Ok"}, False: {"Err"}} and not slh, "R-TABLE", short + ":helper-ok-iff-equal", "tail helper %s: Ok iff digests are equal, no slicing" % hf.path.split("::")[-1],
                        "the comparison helper %s has result table %s and slicing operations %s" % (hf.path, tblh, slh))
            site_fn, site_call = f, hcall       # where the decision is reached in the verifier itself
        else:
            a, b = p.operand(eq.args[0]), p.operand(eq.args[1])
            site_fn, site_call = f, eq
        dig = [x for x in (a, b) if x[0] == "call" and x[1].endswith("Multihash::digest")]
        oth = [x for x in (a, b) if not (x[0] == "call" and x[1].endswith("Multihash::digest"))]
        ok = len(dig) == 1 and len(oth) == 1
        if ok:
            s_ = show(oth[0])
            ok = ("finalize" in s_ or "value_json_hash" in s_) and not any(z[0] in ("index",) for z in walk(oth[0])) and dig[0][2][0][0] in ("param", "call")
        ctx.require(ok, "R-OP", short + ":whole-digest", "compares the freshly computed digest with the whole mhash.digest()", "%s compares `%s` with `%s`" % (name, show(a)[:120], show(b)[:120]),
                    sample={"fn": name, "lhs": show(a)[:100], "rhs": show(b)[:100]})
        sl = [c_.path for c_ in f.calls if (any(c_.path.endswith(x) for x in SLICERS) or "core::ops::index::Index" in c_.path) and "PartialEq" not in c_.path]
        ctx.require(not sl, "R-OP", short + ":no-slicing", "no slicing / prefix / length operation on either side", "%s now uses %s near the digest comparison" % (name, sl))
        if helper is None:
            tbl = {}
            for st in lib.enumerate_paths(f, p, max_paths=40000):
                ev = None
                for br, val in st.conds:
                    if not isinstance(br, str) and br.expr[0] == "call" and br.expr[3] is eq:
                        ev = val
                if ev is not None:
                    tbl.setdefault(ev, set()).add(lib.path_result(f, st))
            ctx.require(tbl == {True: {"Ok"}, False: {"Err"}}, "R-TABLE", short + ":ok-iff-equal", "Ok iff digests are equal", "%s result table is %s" % (name, tbl))
        else:
            ctx.require(lib.returns_call_result(f, site_call), "R-TABLE", short + ":ok-iff-equal", "the verifier returns the comparison helper's verdict unchanged",
                        "%s does not return the comparison helper's result" % name)
        # whitelist: which Code variants reach the comparison
        codes = set()
        for st in lib.enumerate_paths(f, p, max_paths=40000):
            if site_call in st.calls:
                for k_, v_ in st.variants.items():
                    if v_ in ("Sha2_256", "Blake3_256") or v_.startswith(("Sha", "Blake", "Keccak", "Identity", "Ripemd", "Strobe")):
                        codes.add(v_)
        sib[short] = codes
        ctx.require(codes == {"Sha2_256", "Blake3_256"}, "R-TABLE", short + ":whitelist", "only Sha2_256 and Blake3_256 reach the comparison", "%s accepts hash codes %s" % (name, sorted(codes)))
        if short == "verify_raw_value":
            brs = [b_ for b_ in lib.bool_branches(f, p) if b_.form[0] != "bool" and any(str(x[1]).endswith("JSON_CODEC") for x in walk(b_.expr) if x[0] == "const")]
            okc = len(brs) == 1
            if okc:
                rel_err = None
                for tgt in (brs[0].true_bb, brs[0].false_bb):
                    if site_call.bb not in f.reach_from(tgt):
                        rel_err = brs[0].holds_on(tgt)
                okc = rel_err is not None and rel_err[0] == "!="
            ctx.require(okc, "R-OP", short + ":codec-guard", "codec != JSON_CODEC -> error before any hashing", "verify_raw_value's codec guard changed")
    ctx.require(len(set(map(frozenset, sib.values()))) == 1 and len(sib) == 2, "R-SIBLING", "verifiers-agree", "both verifiers share the hash whitelist", "verifiers disagree: %s" % sib)
