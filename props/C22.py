"""C22 — size limits enforced exactly as configured (DESIGN §4/C22)."""
from rules import lib
from props import common
from rules.lib import Prov, show, walk, canon_rel

LEVEL = ("Structural decision procedure of the three size checks: comparison operator and operand provenance "
         "(strict `>` between the measured length and the matching RunParameters limit), flag/constructor pairing, "
         "handle_limit_exceeding's table, dominance of the checks over parsing/context creation, flag copy into the "
         "outcome and non-interference of the soft-limit fields. Together these are the whole mechanism of the "
         "property; what is decided is the shape of that mechanism, not runtime values."
         " Added: the size comparisons are mutually independent; the hard-limit exit returns the untouched previous data.")

CHECKS = [
    # (function, measured value must mention, limit field, error ctor suffix, flag field)
    ("check_against_size_limits", ("param", "air"), "air_size_limit", "PreparationError::air_size_limit", "air_size_limit_exceeded"),
    ("check_against_size_limits", ("param", "raw_current_data"), "particle_size_limit", "PreparationError::particle_size_limit", "particle_size_limit_exceeded"),
]


def _len_of(e):
    """e is `len(x) as u64` (or len(x)); returns x or None."""
    if e[0] == "cast":
        e = e[2]
    if e[0] == "call" and (e[1].endswith("::len")):
        return e[2][0]
    return None


def check_size_branch(ctx, fn, prov, measured, limit_field, ctor, flag, label):
    """Find the boolean branch comparing len(measured) with run_parameters.<limit_field>; the edge on
    which `limit < len` must be exactly the edge leading to the error ctor + handle_limit_exceeding with
    the matching flag."""
    found = None
    for br in lib.bool_branches(fn, prov):
        if br.form[0] == "bool":
            continue
        rel = canon_rel(lib.rel_holds_on_edge(br.form, br.pos, True))
        sides = [rel[1], rel[2]]
        if any(lib.mentions_field(s, limit_field) for s in sides):
            found = (br, rel)
            break
    if not ctx.require(found is not None, "R-OP", label + ":compare",
                       "comparison against %s present" % limit_field,
                       "no branch compares a length with run_parameters.%s in %s" % (limit_field, fn.path)):
        return
    br, rel = found
    # on the TRUE edge the relation `rel` holds; we need: limit < len(measured) (strict) leads to error
    # Determine which edge reaches the ctor.
    ctor_calls = fn.calls_to(lambda c: c.path.endswith(ctor))
    if not ctx.require(len(ctor_calls) >= 1, "R-FLOW", label + ":ctor", "error constructor %s is called" % ctor,
                       "error constructor %s no longer called in %s" % (ctor, fn.path)):
        return
    cc = ctor_calls[0]
    err_edge = None
    for tgt in (br.true_bb, br.false_bb):
        other = br.false_bb if tgt == br.true_bb else br.true_bb
        if lib.edge_dominates(fn, br.bb, tgt, other, cc.bb):
            err_edge = tgt
    if not ctx.require(err_edge is not None, "R-GUARD", label + ":edge",
                       "error constructor reachable only through one edge of the size comparison",
                       "the %s error path in %s is not guarded by the size comparison" % (ctor, fn.path)):
        return
    holds = br.holds_on(err_edge)
    # expected: ('<', limit, len(measured) as u64)
    good = (holds is not None and holds[0] == "<" and lib.mentions_field(holds[1], limit_field)
            and not lib.mentions_field(holds[2], limit_field))
    m = _len_of(holds[2]) if good else None
    good = good and m is not None and any(s[0] == measured[0] and s[1] == measured[1] for s in walk(m))
    lim = holds[1] if holds else None
    good = good and lim is not None and any(s[0] in ("param", "upvar") and s[1] == "run_parameters" for s in walk(lim))
    ctx.require(good, "R-OP", label + ":strict-gt",
                "error edge taken iff %s" % (show(holds[2]) + " > " + show(holds[1]) if holds else "?"),
                "size check %s in %s: the error edge is taken when `%s %s %s`, expected `len(%s) as u64 > run_parameters.%s` (strict)"
                % (label, fn.path, show(holds[1]) if holds else "?", holds[0] if holds else "?",
                   show(holds[2]) if holds else "?", measured[1], limit_field),
                sample={"site": cc.loc(), "edge_condition": "%s %s %s" % (show(holds[1]), holds[0], show(holds[2])) if holds else None})
    # pairing: handle_limit_exceeding on this edge receives the error from `ctor` and &mut <flag>
    hcalls = [c for c in fn.calls_to("sizes_limits_check::handle_limit_exceeding")
              if lib.edge_dominates(fn, br.bb, err_edge, None, c.bb)]
    if not ctx.require(len(hcalls) == 1, "R-PAIR", label + ":handler",
                       "exactly one handle_limit_exceeding call on the error edge",
                       "expected exactly one handle_limit_exceeding on the %s error edge in %s, found %d" % (label, fn.path, len(hcalls))):
        return
    h = hcalls[0]
    e_err = prov.operand(h.args[1])
    e_flag = prov.operand(h.args[2])
    ctx.require(lib.mentions_call(e_err, ctor), "R-FLOW", label + ":pair-error",
                "handler receives the error built by %s" % ctor,
                "handle_limit_exceeding for %s receives `%s`, not the error from %s" % (label, show(e_err), ctor))
    ctx.require(e_flag[0] == "field" and e_flag[2] == flag, "R-FLOW", label + ":pair-flag",
                "handler receives &mut %s" % flag,
                "handle_limit_exceeding for %s is given flag `%s`, expected `%s`" % (label, show(e_flag), flag),
                sample={"flag": show(e_flag)})
    # the handler's result is propagated with `?`
    ctx.require(lib.err_propagates(fn, h), "R-MUST", label + ":propagate",
                "Err of handle_limit_exceeding is propagated",
                "the result of handle_limit_exceeding for %s is not propagated in %s" % (label, fn.path))
    # ctor args: length and limit
    e_args = [prov.operand(a) for a in cc.args]
    if len(e_args) >= 1:
        last = e_args[-1]
        ctx.require(lib.mentions_field(last, limit_field), "R-FLOW", label + ":ctor-limit",
                    "error reports the matching limit", "error ctor %s is passed `%s` instead of %s" % (ctor, show(last), limit_field))


def check(ctx):
    F = ctx.facts("prod")
    ctx.clause("R-OP x3: error edge iff len > matching limit (strict), operands by provenance")
    ctx.clause("R-FLOW x3: matching error constructor and matching soft-limit flag")
    ctx.clause("R-TABLE handle_limit_exceeding: flag:=true on all paths; Err iff hard_limit_enabled")
    ctx.clause("R-GUARD size check dominates parse_data; per-result check dominates ExecutionCtx::new")
    ctx.clause("R-COVER InterpreterOutcome::new copies the three flags")
    ctx.clause("R-WRITERS non-interference: soft-limit fields and limits read only by the limit machinery")

    f = F.fn("sizes_limits_check::check_against_size_limits")
    prov = Prov(f)
    for fnname, measured, lim, ctor, flag in CHECKS:
        check_size_branch(ctx, f, prov, measured, lim, ctor, flag, lim)
    # the three limits are judged independently of each other: a comparison must be reached whatever the OTHER comparisons
    # said (in soft mode a run can exceed several limits at once and must raise every matching flag)
    ctx.clause("R-GUARD the size comparisons are independent: none is reachable only through one edge of another")
    cmp_brs = []
    for fnname, measured, lim, ctor, flag in CHECKS:
        for br in lib.bool_branches(f, prov):
            if br.form[0] != "bool" and (lib.mentions_field(br.form[1], lim) or lib.mentions_field(br.form[2], lim)):
                cmp_brs.append((lim, br))
                break
    for la, a in cmp_brs:
        for lb, b in cmp_brs:
            if a is b:
                continue
            dep = [e for e in (a.true_bb, a.false_bb) if e is not None and lib.edge_dominates(f, a.bb, e, None, b.bb)]
            ctx.require(not dep, "R-GUARD", "independent:%s-vs-%s" % (lb, la), "the %s comparison is reached whatever the %s comparison said" % (lb, la),
                        "in check_against_size_limits the %s comparison is reachable only through one edge of the %s comparison (an else-if chain): when both limits are exceeded in soft mode "
                        "only one flag is raised" % (lb, la))
    ctx.floor("R-GUARD", "size comparisons in check_against_size_limits", len(cmp_brs), 2)
    # hard mode: the rejected run hands back the untouched previous data
    ctx.clause("R-FLOW the Err edge of check_against_size_limits reaches from_uncatchable_error with the untouched raw_prev_data")
    common.farewell_sites(ctx, F, only=("sizes_limits_check::check_against_size_limits",))
    # returns the triggering struct it filled
    # --- call result size limit (closure inside make_exec_ctx)
    mk = F.fn("preparation::make_exec_ctx")
    mprov = Prov(mk)
    cl = [c for c in F.closures_of(mk)]
    hit = None
    for c in cl:
        cp = Prov(c)
        for br in lib.bool_branches(c, cp):
            pass
        # closure returns the comparison directly: find a `bin` Gt/Lt in statements assigned to _0
        e = cp.local(0)
        pos, form = lib.cond_of(cp, e)
        if form[0] != "bool":
            rel = canon_rel(lib.rel_holds_on_edge(form, pos, True))
            if lib.mentions_field(rel[1], "call_result_size_limit") or lib.mentions_field(rel[2], "call_result_size_limit"):
                hit = (c, rel)
    if ctx.require(hit is not None, "R-OP", "call_result_size_limit:compare",
                   "per-result predicate compares with call_result_size_limit",
                   "no closure in make_exec_ctx compares a call result length with call_result_size_limit"):
        c, rel = hit
        m = _len_of(rel[2])
        good = (rel[0] == "<" and lib.mentions_field(rel[1], "call_result_size_limit") and m is not None
                and lib.mentions_field(m, "result"))
        ctx.require(good, "R-OP", "call_result_size_limit:strict-gt",
                    "predicate true iff %s > %s" % (show(rel[2]), show(rel[1])),
                    "call-result size predicate is `%s %s %s`, expected `call_result.result.len() as u64 > run_parameters.call_result_size_limit`"
                    % (show(rel[1]), rel[0], show(rel[2])), sample={"closure": c.path})
    # the predicate feeds Iterator::any over call_results.values(), whose true edge leads to the handler
    anyc = mk.calls_to(lambda c: c.path.endswith("::any"))
    ctx.floor("R-OP", "Iterator::any in make_exec_ctx", len(anyc), 1)
    if anyc:
        a = anyc[0]
        e = mprov.operand(a.args[0])
        ctx.require(any(s[0] == "call" and s[1].endswith("::values") for s in walk(e)) and
                    lib.mentions_call(e, "deserialize"),
                    "R-FLOW", "call_result_size_limit:all-results",
                    "predicate ranges over every deserialized call result (values())",
                    "the size predicate no longer ranges over call_results.values(): %s" % show(e))
        hc = mk.calls_to("sizes_limits_check::handle_limit_exceeding")
        ctors = mk.calls_to("PreparationError::call_result_size_limit")
        ok = len(hc) == 1 and len(ctors) == 1
        ctx.require(ok, "R-PAIR", "call_result_size_limit:handler", "one handler and one ctor",
                    "expected one handle_limit_exceeding and one call_result_size_limit ctor in make_exec_ctx")
        if ok:
            h = hc[0]
            # guard: handler reachable only on true-edge of the any() result
            guards = lib.guards_of(mk, h.bb, mprov)
            g_ok = False
            for br, rel in guards:
                if rel and rel[0] == "bool" and rel[2] is True and br.expr[0] == "call" and br.expr[1].endswith("::any"):
                    g_ok = True
            ctx.require(g_ok, "R-GUARD", "call_result_size_limit:edge",
                        "handler only on the true edge of any(size > limit)",
                        "handle_limit_exceeding in make_exec_ctx is not guarded by the true edge of the any() predicate")
            e_flag = mprov.operand(h.args[2])
            ctx.require(e_flag[0] == "field" and e_flag[2] == "call_result_size_limit_exceeded", "R-FLOW",
                        "call_result_size_limit:pair-flag", "flag call_result_size_limit_exceeded",
                        "make_exec_ctx passes flag `%s`, expected call_result_size_limit_exceeded" % show(e_flag))
            ctx.require(lib.mentions_call(mprov.operand(h.args[1]), "PreparationError::call_result_size_limit"),
                        "R-FLOW", "call_result_size_limit:pair-error", "matching error ctor", "wrong error passed to handler in make_exec_ctx")
            ctx.require(lib.err_propagates(mk, h), "R-MUST", "call_result_size_limit:propagate",
                        "Err propagated", "handle_limit_exceeding result not propagated in make_exec_ctx")
            # dominance over ExecutionCtx::new: every path to ExecutionCtx::new passes the any() evaluation
            news = mk.calls_to("ExecutionCtx::new")
            ctx.floor("R-GUARD", "ExecutionCtx::new in make_exec_ctx", len(news), 1)
            for n in news:
                ctx.require(mk.dominates(a.bb, n.bb), "R-GUARD", "call_result_size_limit:dominates-ctx",
                            "size predicate evaluated before ExecutionCtx::new",
                            "ExecutionCtx::new is reachable without evaluating the call-result size predicate")
                # and in hard mode the error edge cannot reach it: handler Err edge returns (checked by propagate)

    # --- handle_limit_exceeding table
    h = F.fn("sizes_limits_check::handle_limit_exceeding")
    hp = Prov(h)
    paths = lib.enumerate_paths(h, hp)
    ctx.floor("R-TABLE", "paths of handle_limit_exceeding", len(paths), 2)
    # flag write on every path: a statement `(*soft_limit_flag) = const true` in a block dominating all returns
    wr = []
    for bi, si, s in h.stmts():
        if s["lhs"]["p"] == ["*"] and h.local_name(s["lhs"]["l"]) == "soft_limit_flag":
            v = s["rv"]["op"].get("const", {}).get("v") if s["rv"]["k"] == "use" else None
            wr.append((bi, v))
    ctx.require(len(wr) == 1 and wr[0][1] == "1" and all(h.dominates(wr[0][0], r) for r in h.returns),
                "R-TABLE", "handle:flag-always", "*soft_limit_flag = true on every path",
                "handle_limit_exceeding does not set the flag to true unconditionally (writes: %s)" % wr)
    for st in paths:
        conds = [(show(b.expr), v) for b, v in st.conds if not isinstance(b, str)]
        ret = hp.local(0)
    # result table: Err iff hard_limit_enabled
    tbl = {}
    for st in paths:
        key = tuple((show(b.expr), v) for b, v in st.conds if not isinstance(b, str) and "hard_limit_enabled" in show(b.expr))
        # which variant is assigned to _0 on this path
        var = None
        for bb in st.blocks:
            for s in h.blocks[bb]["stmts"]:
                if "lhs" in s and s["lhs"]["l"] == 0 and not s["lhs"]["p"] and s["rv"]["k"] == "agg":
                    var = s["rv"]["variant"]
        tbl[key] = var
    want = {(("run_parameters.hard_limit_enabled", True),): "Err", (("run_parameters.hard_limit_enabled", False),): "Ok"}
    ctx.require(tbl == want, "R-TABLE", "handle:hard-iff-err", "Err iff hard_limit_enabled: %s" % tbl,
                "handle_limit_exceeding decision table is %s, expected Err iff run_parameters.hard_limit_enabled" % tbl,
                sample={"table": {str(k): v for k, v in tbl.items()}})
    # Err carries the error parameter
    e0 = hp.local(0)
    errs = [s for s in walk(e0) if s[0] == "agg" and s[2] == "Err"]
    ctx.require(errs and all(s[3].get("0", ("x",))[0] == "param" and s[3]["0"][1] == "error" for s in errs),
                "R-FLOW", "handle:err-is-arg", "Err(error) carries the given error",
                "handle_limit_exceeding returns an Err that is not its `error` argument: %s" % show(e0))

    # --- dominance in execute_air_impl
    ex = F.fn("runner::execute_air_impl")
    sz = ex.calls_to("sizes_limits_check::check_against_size_limits")
    pd = ex.calls_to("preparation::parse_data")
    ctx.floor("R-GUARD", "check_against_size_limits calls in execute_air_impl", len(sz), 1)
    ctx.floor("R-GUARD", "parse_data calls in execute_air_impl", len(pd), 1)
    eprov = Prov(ex)
    for p in pd:
        ok = any(lib.guarded_by_ok(ex, s, p.bb) for s in sz)
        ctx.require(ok, "R-GUARD", "runner:size-before-parse", "parse_data only after check_against_size_limits returned Ok",
                    "parse_data in execute_air_impl is reachable without a successful check_against_size_limits")
    for s in sz[:1]:
        a = [eprov.operand(x) for x in s.args]
        ok = (len(a) == 3 and lib.mentions_param(a[0], "params") and lib.mentions_param(a[1], "air")
              and lib.mentions_param(a[2], "raw_current_data"))
        ctx.require(ok, "R-FLOW", "runner:size-args", "checked values are the run's own air / current data / params",
                    "check_against_size_limits is called with (%s) instead of (&params, &air, &raw_current_data)" % ", ".join(show(x) for x in a))
    # the soft_limits_triggering returned by the check is what reaches the outcome constructors
    # --- InterpreterOutcome::new copies the flags
    onew = F.fn("InterpreterOutcome::new", crate="air_interpreter_interface")
    op_ = Prov(onew)
    e = op_.local(0)
    aggs = [s for s in walk(e) if s[0] == "agg" and s[1].endswith("InterpreterOutcome")]
    if ctx.require(len(aggs) == 1, "R-COVER", "outcome:ctor", "single InterpreterOutcome aggregate", "InterpreterOutcome::new no longer builds one aggregate"):
        fields = aggs[0][3]
        for fl in ("air_size_limit_exceeded", "particle_size_limit_exceeded", "call_result_size_limit_exceeded"):
            v = fields.get(fl)
            ctx.require(v is not None and v[0] == "field" and v[2] == fl and v[1][0] == "param",
                        "R-COVER", "outcome:" + fl, "outcome.%s := soft_limits_triggering.%s" % (fl, fl),
                        "InterpreterOutcome::new sets %s from `%s`" % (fl, show(v) if v else "nothing"))
    # --- non-interference: who reads the flags / limits
    allowed = {
        "air_size_limit": {"check_against_size_limits"},
        "particle_size_limit": {"check_against_size_limits"},
        "call_result_size_limit": {"make_exec_ctx"},
        "hard_limit_enabled": {"handle_limit_exceeding"},
    }
    reach, _ = F.reachable_fns([F.fn("runner::execute_air")])
    n_reads = 0
    for field, okfns in allowed.items():
        for fn, bb, kind, _ in lib.field_accesses(F, "RunParameters", field):
            if fn.id not in reach:
                continue
            if fn.ex and any("derive" in x for x in fn.ex):
                continue
            n_reads += 1
            owner = fn.path.split("::{closure")[0].split("::")[-1]
            ctx.require(owner in okfns, "R-WRITERS", "noninterference:%s:%s" % (field, owner),
                        "%s read by %s" % (field, owner),
                        "RunParameters.%s is read in %s (reachable from execute_air): soft/hard mode or a limit may influence execution there"
                        % (field, fn.path))
    for flag in ("air_size_limit_exceeded", "particle_size_limit_exceeded", "call_result_size_limit_exceeded"):
        for fn, bb, kind, _ in lib.field_accesses(F, "SoftLimitsTriggering", flag):
            if fn.id not in reach or (fn.ex and any("derive" in x for x in fn.ex)):
                continue
            n_reads += 1
            owner = fn.path.split("::{closure")[0].split("::")[-1]
            ctx.require(owner in ("check_against_size_limits", "make_exec_ctx", "new") and
                        (owner != "new" or "InterpreterOutcome" in fn.path),
                        "R-WRITERS", "noninterference:%s:%s" % (flag, owner), "%s touched by %s (%s)" % (flag, owner, kind),
                        "SoftLimitsTriggering.%s is accessed (%s) in %s" % (flag, kind, fn.path))
    ctx.floor("R-WRITERS", "limit/flag field accesses in reachable code", n_reads, 9)
