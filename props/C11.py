"""C11 — a canonicalized stream is fixed once and identical everywhere (DESIGN §4/C11)."""
from rules import lib
from rules.facts import suffix_match
from rules.lib import Prov, show, walk
from props import common, mergetab

LEVEL = ("Mechanism level: the first canonicalisation runs only on the `canon peer == current peer` edge (both call "
         "sites); a canon already present in the data is rebuilt exclusively from the stored aggregate — its handler "
         "receives no stream producer and reaches no stream accessor; two different executed canons never merge and an "
         "executed canon wins over a pending request; the three canon instructions share one skeleton and their producers "
         "read the whole stream without filtering; the stored tetraplet is re-verified before the epilog. Equality of canon "
         "values across peers in all histories is not decided."
         " Added: a seen canon is rebuilt 1:1 from the stored element list (no dropping adaptor, no in-place list operation).")

CANON_TYPES = ["::Canon<'i>", "::CanonMap<'i>", "::CanonStreamMapScalar<'i>"]
STREAM_ACCESSORS = ("Streams::get", "Streams::get_mut", "StreamMaps::get", "StreamMaps::get_mut", "Stream::iter", "Stream::slice_iter",
                    "StreamMap::iter", "StreamMap::iter_unique_key_object", "Streams::add_stream_value", "StreamMaps::add_stream_map_value")


def check(ctx):
    F = ctx.facts("prod")
    ctx.clause("R-GUARD create_canon_stream_for_first_time only on the peer_id == current_peer_id edge (2 sites)")
    ctx.clause("call-graph: handle_canon_executed (+ the three epilog closures) reaches no stream accessor and takes no producer")
    ctx.clause("R-TABLE canon merge: different Executed -> error; (RequestSentBy, Executed) -> Executed")
    ctx.clause("R-SIBLING skeleton of the three canon instructions; producers read the whole stream")
    ctx.clause("R-GUARD verify_canon before the epilog")

    is_peer = lambda e: any(s[0] == "call" and s[1].endswith("resolve_peer_id_to_string") for s in walk(e))
    n = 0
    for fname in ("canon_utils::handle_unseen_canon", "canon_utils::handle_canon_request_sent_by"):
        f = F.fn(fname)
        p = Prov(f)
        for c in f.calls_to("canon_utils::create_canon_stream_for_first_time"):
            n += 1
            g = common.eq_guard(f, p, c.bb, is_peer, common.is_current_peer)
            ctx.require(g is not None, "R-GUARD", "first:" + fname.split("::")[-1], "first canonicalisation only where %s" % (g or "")[:120],
                        "%s canonicalises a stream without the peer_id == current_peer_id guard: a peer other than the addressed one would fix the stream" % fname,
                        sample={"fn": fname, "guard": g})
            a = p.operand(c.args[2])
            ctx.require(is_peer(a), "R-FLOW", "first:peer-arg:" + fname.split("::")[-1], "canon tetraplet peer := the resolved canon peer", "first canonicalisation peer is `%s`" % show(a)[:100])
    ctx.floor("R-GUARD", "create_canon_stream_for_first_time call sites", n, 2)
    cg = F.callgraph()
    first = F.fn("canon_utils::create_canon_stream_for_first_time")
    callers = {common.owner_qual(F.fns[f]) for f, outs in cg.items() if first.id in outs}
    ctx.require(callers == {"canon_utils::handle_unseen_canon", "canon_utils::handle_canon_request_sent_by"}, "R-WRITERS", "first:callers",
                "exactly the two audited callers", "create_canon_stream_for_first_time is called from %s" % sorted(callers))
    # only create_canon_stream_for_first_time invokes the producer
    fp = Prov(first)
    ind = [c for c in first.calls if c.path.endswith("Fn::call") or c.kind in ("indirect", "virtual")]
    ctx.require(len(ind) == 2, "R-FLOW", "first:invokes", "calls the producer then the epilog", "create_canon_stream_for_first_time makes %d closure calls" % len(ind))

    # 2. seen canon never touches streams
    hce = F.fn("canon_utils::handle_canon_executed")
    ptypes = [hce.locals[i] for i in range(1, hce.argc + 1)]
    ctx.require(not any("String) -> " in t and "CanonStream" in t for t in ptypes) and len(ptypes) == 5, "R-TYPE", "seen:no-producer-param",
                "handle_canon_executed receives no stream producer", "handle_canon_executed parameters are now %s" % ptypes)
    roots = [hce]
    epilogs = []
    for ty in CANON_TYPES:
        ex = [f for f in F.impl_fns("ExecutableInstruction", ty, "execute") if F.impl_of(f)["self"].endswith(ty)]
        if not ctx.require(len(ex) == 1, "R-SIBLING", "skeleton:anchor:" + ty, "execute impl found", "execute impl for %s missing" % ty):
            continue
        mod = ex[0].path.split("::<impl")[0]
        ep = [f for f in F.find("epilog_closure") if f.path == mod + "::epilog_closure"]
        if ctx.require(len(ep) == 1, "R-SIBLING", "skeleton:epilog:" + ty, "epilog_closure found", "epilog_closure for %s missing" % ty):
            epilogs += F.closures_of(ep[0])
    reach, parent = F.reachable_fns(roots + epilogs)
    hits = []
    for fid in reach:
        for c in F.fns[fid].calls:
            if suffix_match(c.path, STREAM_ACCESSORS):
                hits.append("%s -> %s" % (F.fns[fid].path, c.path))
    ctx.require(not hits and len(reach) > 5, "R-REACH", "seen:no-stream-access", "no stream accessor reachable from handle_canon_executed or the epilogs (%d fns)" % len(reach),
                "a canon already present in the data can now read or write live streams: %s" % hits[:3], sample={"reachable_functions": len(reach)})
    # the rebuilt canon stream is the stored aggregate's element list, element by element: a 1:1 map over
    # `aggregate.values`, no dropping / reordering adaptor and no in-place reshaping of the CID list
    ctx.clause("R-FLOW seen canon rebuilt 1:1 from the stored aggregate's element list (no filter/dedup/sort/truncate between the store and CanonStream::new)")
    hcp = Prov(hce)
    news = hce.calls_to("CanonStream::new")
    if ctx.require(len(news) == 1, "R-FLOW", "seen:rebuild-anchor", "one CanonStream::new in handle_canon_executed", "handle_canon_executed builds %d canon streams" % len(news)):
        v = hcp.operand(news[0].args[0])
        names = [x[1] for x in walk(v) if x[0] == "call"]
        src_ok = lib.mentions_call(v, "get_canon_result_by_cid") and lib.mentions_field(v, "values")
        shape_ok = any(n.endswith("Iterator::map") for n in names) and any(n.endswith("Iterator::collect") for n in names)
        DROP = ("::filter", "::skip", "::take", "::step_by", "::take_while", "::skip_while", "::filter_map", "::rev", "::dedup", "::flat_map", "::chain", "::zip", "::peekable", "::fuse")
        drops = [n for n in names if n.endswith(DROP)]
        reshapes = []
        for c_ in hce.calls:
            if c_.atys and c_.atys[0].startswith("&mut") and ("Vec<" in c_.atys[0] or c_.atys[0].startswith("&mut [")) and not lib.is_transparent(c_.path):
                r = hcp.operand(c_.args[0])
                if lib.mentions_field(r, "values") or lib.mentions_call(r, "get_canon_result_by_cid"):
                    reshapes.append(c_.path.split("::")[-1])
        ctx.require(src_ok and shape_ok and not drops and not reshapes, "R-FLOW", "seen:rebuild-1to1",
                    "values := aggregate.values.iter().map(get_canon_value_by_cid).collect()", "the canon stream rebuilt from stored data is `%s` (dropping adaptors %s, in-place list operations %s): it no longer carries exactly the stored elements in the stored order"
                    % (show(v)[:200], drops, reshapes), sample={"values": show(v)[:200]})
        cl = [x for x in walk(v) if x[0] == "closure"]
        okc = len(cl) == 1 and any(c_.path.endswith("get_canon_value_by_cid") for f_ in F.fns.values() if f_.id == cl[0][1] for c_ in f_.calls)
        ctx.require(okc, "R-FLOW", "seen:rebuild-element", "each element resolved by get_canon_value_by_cid", "the per-element mapping of the rebuilt canon stream changed")

    # handle_seen_canon dispatch
    hs = F.fn("canon_utils::handle_seen_canon")
    rows = {}
    for st in lib.enumerate_paths(hs, max_paths=20000):
        var = [v for k, v in st.variants.items() if v in ("RequestSentBy", "Executed")]
        rows.setdefault(var[0] if var else None, set()).add(tuple(sorted({c.path.split("::")[-1] for c in st.calls if c.path.startswith("air::")})))
    ctx.require(rows == {"RequestSentBy": {("handle_canon_request_sent_by",)}, "Executed": {("handle_canon_executed",)}}, "R-TABLE", "seen:dispatch",
                "RequestSentBy -> handle_canon_request_sent_by; Executed -> handle_canon_executed", "handle_seen_canon dispatch is %s" % rows)
    hp = Prov(hs)
    for c in hs.calls_to("canon_utils::handle_canon_executed"):
        a = hp.operand(c.args[2])
        ctx.require(lib.mentions_param(a, "canon_result"), "R-FLOW", "seen:cid-from-state", "rebuilt from the CID stored in the met state", "handle_canon_executed is given `%s`" % show(a))

    # 3. merge table
    f, cells = mergetab.canon_cells(ctx, F)
    ee = {who for g, who in cells.get(("Executed", "Executed"), set())}
    ctx.require(ee == {"prev", "error"}, "R-TABLE", "merge:two-executed", "different executed canons -> error; equal -> keep", "merge_canon_results(Executed,Executed) outcomes: %s" % ee)
    err_g = [g for g, who in cells.get(("Executed", "Executed"), set()) if who == "error"]
    ctx.require(err_g and all(any("::ne(" in x[0] and x[1] is True or "::eq(" in x[0] and x[1] is False for x in g) for g in err_g), "R-OP", "merge:error-iff-differs",
                "error exactly when the two CIDs differ", "the error guard of merge_canon_results(Executed,Executed) is %s" % err_g)
    for a, b, want in (("RequestSentBy", "Executed", "current"), ("Executed", "RequestSentBy", "prev")):
        got = {who for g, who in cells.get((a, b), set())}
        ctx.require(got == {want}, "R-TABLE", "merge:executed-wins:%s/%s" % (a, b), "(%s,%s) keeps the executed canon" % (a, b), "merge_canon_results(%s,%s) returns %s" % (a, b, got))

    # 4. skeleton
    for ty in CANON_TYPES:
        ex = [f for f in F.impl_fns("ExecutableInstruction", ty, "execute") if F.impl_of(f)["self"].endswith(ty)]
        if not ex:
            continue
        e = ex[0]
        ep_ = Prov(e)
        rows = {}
        for st in lib.enumerate_paths(e, max_paths=60000):
            var = [v for k, v in st.variants.items() if v in ("CanonResult", "Empty")]
            if not var:
                continue
            rows.setdefault(var[0], set()).add(tuple(sorted({c.path.split("::")[-1] for c in st.calls if c.path.endswith(("handle_seen_canon", "handle_unseen_canon"))})))
        ctx.require(rows == {"CanonResult": {("handle_seen_canon",)}, "Empty": {("handle_unseen_canon",)}}, "R-SIBLING", "skeleton:dispatch:" + ty,
                    "%s: met state -> handle_seen_canon, none -> handle_unseen_canon" % ty, "%s::execute dispatch is %s" % (ty, rows))
        ms = e.calls_to("TraceHandler::meet_canon_start")
        ctx.require(len(ms) == 1, "R-SIBLING", "skeleton:start:" + ty, "meet_canon_start once", "%s::execute calls meet_canon_start %d times" % (ty, len(ms)))
        for c in e.calls_to("canon_utils::handle_seen_canon") + e.calls_to("canon_utils::handle_unseen_canon"):
            pa = [ep_.operand(x) for x in c.args]
            peer_args = [x for x in pa if x[0] == "field" and x[2] == "peer_id"]
            ctx.require(len(peer_args) >= 1 and all(x[1][0] == "param" for x in peer_args), "R-FLOW", "skeleton:peer:%s:%s" % (ty, c.path.split("::")[-1]),
                        "addressed peer := self.peer_id", "%s passes peer `%s`" % (ty, [show(x) for x in pa][:3]))
        mod = e.path.split("::<impl")[0]
        pr = [f for f in F.find("create_canon_stream_producer") if f.path == mod + "::create_canon_stream_producer"]
        if ctx.require(len(pr) == 1, "R-SIBLING", "skeleton:producer:" + ty, "producer found", "create_canon_stream_producer for %s missing" % ty):
            cl = F.closures_of(pr[0])
            top = [c for c in cl if c.id.count("{closure#") == 1]
            names = [c.path for f_ in cl for c in f_.calls]
            reads = [x for x in names if suffix_match(x, ("Stream::iter", "StreamMap::iter", "StreamMap::iter_unique_key_object"))]
            drops = [x for x in names if x.endswith(("::filter", "::skip", "::take", "::step_by", "::take_while", "::skip_while", "::filter_map", "::nth", "::last", "::rev"))]
            ctx.require(len(reads) == 1 and not drops, "R-SIBLING", "skeleton:whole-stream:" + ty, "producer reads the whole stream once (%s), no dropping adaptor" % reads,
                        "the canon producer of %s no longer reads the whole stream unfiltered (reads=%s, adaptors=%s)" % (ty, reads, drops))
            gets = [x for x in names if suffix_match(x, ("Streams::get", "StreamMaps::get_mut"))]
            ctx.require(len(gets) == 1, "R-SIBLING", "skeleton:source:" + ty, "producer reads the named stream (%s)" % gets, "producer source changed: %s" % gets)
    # 5. verify_canon before epilog
    hp2 = Prov(hce)
    vc = hce.calls_to("canon_utils::verify_canon")
    ind = [c for c in hce.calls if c.path.endswith("Fn::call")]
    ok = len(vc) == 1 and len(ind) == 1 and lib.guarded_by_ok(hce, vc[0], ind[0].bb)
    ctx.require(ok, "R-GUARD", "seen:verify-before-epilog", "epilog only after verify_canon returned Ok", "handle_canon_executed runs the epilog without a successful verify_canon")
