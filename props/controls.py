"""Positive controls (DESIGN §8): the census / zero-expected matchers are run on the fixture crate
/verif/fixtures/positive (analysed by the same airlint driver) and must report exactly its `bad_*` functions and none
of its `ok_*` functions.  A rule whose matcher has gone blind fails the check that relies on it (fail closed)."""
from rules import facts, lib
from rules.lib import Prov

_RES = None


def _owner(fn):
    return fn.path.split("::{closure")[0].split("::")[-1]


def evaluate():
    global _RES
    if _RES is not None:
        return _RES
    from props import census, sides, C20, C01
    X = facts.load_fixture()
    reach, _ = X.reachable_fns([X.fn("air_fixture::entry")])
    res = {}
    # R-SIDES
    cr, n = sides.crossings(X, crates=("air_fixture",))
    res["sides"] = ({k.split("|")[0].split("::")[-1] for k, _, _ in cr}, {"bad_side_crossing", "bad_side_args"})
    # nondeterminism sources
    _, nd = C20.nd_calls(X, reach)
    res["nd-source"] = ({_owner(fn) for fn, c in nd}, {"bad_clock", "bad_env"})
    # hash-order iteration
    hi = set()
    for fid in reach:
        fn = X.fns[fid]
        for c in fn.calls:
            if C20.is_hash_iteration(c):
                hi.add(_owner(fn))
    res["hash-iter"] = (hi, {"bad_hash_order", "bad_loop_carried", "ok_loop_collected"})
    res["loop-carried"] = ({_owner(X.fns[fid]) for fid in reach if C20.loop_carried_values(X.fns[fid])}, {"bad_loop_carried"})
    # panic census: sites that are not auto-discharged
    ps = set()
    for s in census.panic_sites(X, reach):
        if not C01.auto_discharge(s) and not _owner(s["fn"]) == "entry":
            ps.add(_owner(s["fn"]))
    res["panic-site"] = (ps, {"bad_unwrap", "bad_index", "bad_add_u32", "bad_sub_unguarded", "bad_recursion"})
    # allocation sizes
    al = set()
    for fid in reach:
        fn = X.fns[fid]
        p = None
        for c in fn.calls:
            if c.path.endswith(C01.ALLOC_CALLEES):
                p = p or Prov(fn)
                cand = [p.operand(a) for a, t in zip(c.args, c.atys) if t in ("usize", "u32", "u64")]
                if not all(C01._size_bounded(e) for e in cand):
                    al.add(_owner(fn))
    res["alloc"] = (al, {"bad_alloc_wire"})
    # unsafe
    res["unsafe"] = ({u["in"].split("::")[-1] for u in X.unsafe if u["user"]}, {"bad_unsafe"})
    # recursion
    cg = X.callgraph()
    rec = {_owner(X.fns[x]) for comp in C01._sccs({v: [w for w in cg.get(v, ()) if w in reach] for v in reach}) for x in comp}
    res["recursion"] = (rec, {"bad_recursion"})
    _RES = res
    return res


def require(ctx, *names):
    """Fail closed unless each named matcher reports exactly the fixture's expected functions."""
    res = evaluate()
    for n in names:
        got, want = res[n]
        ctx.require(got == want, "CONTROL", "positive-control:" + n,
                    "matcher `%s` fires on the fixture crate exactly where expected (%s) and nowhere else" % (n, sorted(want)),
                    "positive control failed: matcher `%s` reports %s on the fixture crate, expected %s — the rule would pass vacuously on /repo"
                    % (n, sorted(got), sorted(want)), sample={"control": n, "reported": sorted(got)})
