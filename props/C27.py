"""C27 — data and call encodings round-trip (DESIGN §4/C27)."""
import re

from rules import lib, facts
from rules.lib import Prov, show, walk

LEVEL = ("Mechanism level (writer/reader agreement): all three methods of the multiformat wrapper pass the same codec "
         "constant (0x0201) and the same inner format; the inner format writes and reads the *named* msgpack representation; "
         "decode_multiformat errs iff the codec read differs from the expected one, before decoding; every Representation "
         "impl routes serialize / deserialize / to_writer through its own get_format(); the envelope is written with "
         "to_vec_named and read with from_slice, and the versions-only reader decodes `Versions`; inner data is written "
         "and read with the rkyv helpers and every type in its field closure has Archive + CheckBytes impls; the "
         "avm-interface conversions copy every field. Equality of decoded and encoded values is not decided."
         " Added: the Serialize table of JValue with numbers delegated to Number::serialize (the bytes that are encoded).")


# fields excluded from the archive by `#[with(rkyv::with::Skip)]` (not serialized, rebuilt lazily): (type, field) -> reason
NOT_ARCHIVED_FIELDS = {("RawValue", "parsed"): "lazy parse cache, #[with(rkyv::with::Skip)] and #[serde(skip)]"}


def check(ctx):
    F = ctx.facts("prod")
    from props import C26
    ctx.clause("R-TABLE Serialize for JValue: per-variant serializer table, numbers delegated to Number::serialize (the bytes that are hashed / encoded)")
    C26.serialize_table(ctx, F)
    ctx.clause("R-SIBLING RmpSerdeMultiformat: same codec constant and inner format in to_vec / from_slice / to_writer; named msgpack on both sides")
    ctx.clause("R-OP/R-GUARD decode_multiformat: Err(Codec) iff data_codec != expected_codec, dominating from_slice")
    ctx.clause("R-SIBLING every Representation impl uses its own Format for all directions")
    ctx.clause("R-FLOW envelope/inner data writer-reader pairs; try_get_versions decodes Versions only")
    ctx.clause("R-TYPE every ADT in InterpreterData's field closure has Archive and CheckBytes impls")
    ctx.clause("R-COVER avm-interface conversions read every field")

    c = F.const("air_interpreter_sede::rmp_serde::MULTIFORMAT_MSGPCK")
    ctx.require(c["val"] == "513", "R-CONST", "codec:msgpack", "MULTIFORMAT_MSGPCK == 0x0201", "MULTIFORMAT_MSGPCK is %s" % c["val"])
    seen = {}
    for m, inner in (("to_vec", "multiformat::encode_multiformat"), ("from_slice", "multiformat::decode_multiformat"), ("to_writer", "multiformat::write_multiformat")):
        fs = [f for f in F.impl_fns("format::Format", "RmpSerdeMultiformat", m)]
        if not ctx.require(len(fs) == 1, "R-SIBLING", "multiformat:%s:anchor" % m, "impl found", "RmpSerdeMultiformat::%s not found" % m):
            continue
        f = fs[0]
        p = Prov(f)
        cs = f.calls_to(inner)
        ok = len(cs) == 1
        if ok:
            args = [p.operand(a) for a in cs[0].args]
            codec = [a for a in args if a[0] == "const" and str(a[1]).endswith("MULTIFORMAT_MSGPCK")]
            fmt_ty = [t for t in cs[0].atys if "RmpSerdeFormat" in t]
            seen[m] = (bool(codec), bool(fmt_ty), "RmpSerdeFormat" in cs[0].full)
            ok = bool(codec) and (bool(fmt_ty) or "RmpSerdeFormat" in cs[0].full)
            r0 = p.local(0)
            ok = ok and any(s[0] == "call" and s[3] is cs[0] for s in walk(r0))
        ctx.require(ok, "R-SIBLING", "multiformat:" + m, "%s -> %s(.., MULTIFORMAT_MSGPCK, &RmpSerdeFormat)" % (m, inner.split("::")[-1]),
                    "RmpSerdeMultiformat::%s no longer passes MULTIFORMAT_MSGPCK / RmpSerdeFormat to %s" % (m, inner), sample={"method": m})
    inner_calls = {}
    for m, want in (("to_vec", "to_vec_named"), ("from_slice", "from_slice"), ("to_writer", "write_named")):
        fs = [f for f in F.impl_fns("format::Format", "RmpSerdeFormat", m) if "Multiformat" not in F.impl_of(f)["self"]]
        if ctx.require(len(fs) == 1, "R-SIBLING", "rmp:%s:anchor" % m, "impl found", "RmpSerdeFormat::%s not found" % m):
            names = [c_.path.split("::")[-1] for c_ in fs[0].calls if c_.path.startswith("rmp_serde::")]
            inner_calls[m] = names
            ctx.require(names == [want], "R-SIBLING", "rmp:" + m, "%s -> rmp_serde::%s" % (m, want), "RmpSerdeFormat::%s calls %s, expected rmp_serde::%s (named representation on both sides)" % (m, names, want))
    enc = F.fn("multiformat::encode_multiformat")
    ep = Prov(enc)
    wm = enc.calls_to("multiformat::write_multiformat")
    ok = len(wm) == 1 and [ep.operand(a)[1] if ep.operand(a)[0] == "param" else None for a in wm[0].args[:3]] == ["data", "codec", "format"] and lib.err_propagates(enc, wm[0])
    ctx.require(ok, "R-FLOW", "encode:delegates", "encode_multiformat = write_multiformat(data, codec, format, buffer)", "encode_multiformat changed shape")
    wr = F.fn("multiformat::write_multiformat")
    wp = Prov(wr)
    vi = [c_ for c_ in wr.calls if c_.path.endswith("encode::u32")]
    wa = [c_ for c_ in wr.calls if c_.path.endswith("Write::write_all") or c_.path.endswith("::write_all")]
    tw = [c_ for c_ in wr.calls if c_.path.endswith("Format::to_writer") or c_.path.endswith("::to_writer")]
    ok = len(vi) == 1 and len(wa) == 1 and len(tw) == 1 and wp.operand(vi[0].args[0])[0] == "param" and wp.operand(vi[0].args[0])[1] == "codec" and \
        any(s[0] == "call" and s[3] is vi[0] for s in walk(wp.operand(wa[0].args[1]))) and lib.guarded_by_ok(wr, wa[0], tw[0].bb) and \
        wp.operand(tw[0].args[1])[0] == "param" and wp.operand(tw[0].args[1])[1] == "data"
    ctx.require(ok, "R-FLOW", "write:prefix-then-payload", "writes varint(codec) then format.to_writer(data)", "write_multiformat no longer writes the codec prefix followed by the payload")
    dec = F.fn("multiformat::decode_multiformat")
    dp = Prov(dec)
    fsl = [c_ for c_ in dec.calls if c_.path.endswith("::from_slice")]
    pm = dec.calls_to("multiformat::parse_multiformat_bytes")
    brs = [b for b in lib.bool_branches(dec, dp) if b.form[0] != "bool"]
    ok = len(fsl) == 1 and len(pm) == 1 and len(brs) == 1
    if ok:
        br = brs[0]
        rel = None
        for tgt in (br.true_bb, br.false_bb):
            if fsl[0].bb not in dec.reach_from(tgt):
                rel = br.holds_on(tgt)
        ok = rel is not None and rel[0] == "!=" and {("param" in str(rel[1][0]) and rel[1][1]) or show(rel[1]), ("param" in str(rel[2][0]) and rel[2][1]) or show(rel[2])} >= {"expected_codec"} \
            and any(s[0] == "call" and s[3] is pm[0] for x in (rel[1], rel[2]) for s in walk(x))
        ok = ok and lib.guarded_by_ok(dec, pm[0], fsl[0].bb)
        pay = dp.operand(fsl[0].args[1])
        ok = ok and any(s[0] == "call" and s[3] is pm[0] for s in walk(pay))
    ctx.require(ok, "R-OP", "decode:codec-guard", "Err(Codec) iff parsed codec != expected_codec; payload = bytes after the prefix", "decode_multiformat's codec guard changed")
    e0 = dp.local(0)
    ctx.require(any(s[0] == "agg" and s[2] == "Codec" for s in walk(e0)), "R-TABLE", "decode:error-kind", "mismatch is reported as DecodeError::Codec", "decode_multiformat mismatch error changed")

    # Representation impls
    reprs = [im for im in F.impls if (im.get("trait_def") or "").endswith("representation::Representation")]
    ctx.floor("R-SIBLING", "Representation impls", len(reprs), 5)
    n = 0
    for im in reprs:
        self_ty = im["self"]
        for trait, meth, fmeth in (("ToSerialized", "serialize", "to_vec"), ("FromSerialized", "deserialize", "from_slice"), ("ToWriter", "to_writer", "to_writer")):
            for f in F.impl_fns("representation::" + trait, self_ty, meth):
                if F.impl_of(f)["self"] != self_ty:
                    continue
                n += 1
                p = Prov(f)
                gf = f.calls_to("Representation>::get_format") or [c_ for c_ in f.calls if c_.path.endswith("::get_format")]
                fc = [c_ for c_ in f.calls if c_.path.endswith("::" + fmeth) and "Format" in c_.path] or [c_ for c_ in f.calls if c_.path.endswith("::" + fmeth)]
                ok = len(gf) == 1 and len(fc) >= 1 and any(any(s[0] == "call" and s[3] is gf[0] for s in walk(p.operand(c_.args[0]))) for c_ in fc)
                if not ok and trait == "FromSerialized":
                    # hand-written deserializers (e.g. versions-only) must still go through a Format's from_slice
                    ok = any(c_.path.endswith("::from_slice") for c_ in f.calls)
                ctx.require(ok, "R-SIBLING", "repr:%s:%s" % (self_ty.split("::")[-1], meth), "%s::%s uses its own get_format().%s" % (self_ty.split("::")[-1], meth, fmeth),
                            "%s::%s no longer goes through get_format().%s" % (self_ty, meth, fmeth))
    ctx.floor("R-SIBLING", "Representation methods checked", n, 12)
    # envelope
    es = F.fn("interpreter_data::InterpreterDataEnvelope::serialize")
    ctx.require([c_.path for c_ in es.calls if c_.path.startswith("rmp_serde::")] == ["rmp_serde::encode::to_vec_named"], "R-FLOW", "envelope:write", "envelope written with rmp_serde::to_vec_named",
                "InterpreterDataEnvelope::serialize uses %s" % [c_.path for c_ in es.calls])
    er = F.fn("interpreter_data::InterpreterDataEnvelope::try_from_slice")
    ctx.require(any(c_.path == "rmp_serde::decode::from_slice" for c_ in er.calls), "R-FLOW", "envelope:read", "envelope read with rmp_serde::from_slice", "InterpreterDataEnvelope::try_from_slice uses %s" % [c_.path for c_ in er.calls if "rmp" in c_.path])
    gv = F.fn("interpreter_data::InterpreterDataEnvelope::try_get_versions")
    d = [c_ for c_ in gv.calls if c_.path.endswith("FromSerialized<Value>>::deserialize") or c_.path.endswith("::deserialize")]
    ok = len(d) == 1 and "Versions" in d[0].full
    ctx.require(ok, "R-FLOW", "envelope:versions-only", "try_get_versions decodes `Versions` only (%s)" % (d[0].full[-80:] if d else None), "try_get_versions no longer decodes Versions only")
    te = F.fn("preparation::to_envelope_de_error")
    ctx.require(len(te.calls_to("InterpreterDataEnvelope::try_get_versions")) == 1, "R-MUST", "envelope:error-tries-versions", "a failed envelope decode still tries the versions", "to_envelope_de_error no longer tries try_get_versions")
    ids = F.fn("interpreter_data::InterpreterData::serialize")
    ctx.require(any(c_.path.endswith("air_interpreter_data::rkyv::to_vec") for c_ in ids.calls), "R-FLOW", "inner:write", "inner data written with rkyv::to_vec", "InterpreterData::serialize changed")
    idr = F.fn("interpreter_data::InterpreterData::try_from_slice")
    ctx.require(any(c_.path.endswith("air_interpreter_data::rkyv::from_aligned_slice") for c_ in idr.calls), "R-FLOW", "inner:read", "inner data read with the validating rkyv reader", "InterpreterData::try_from_slice changed")
    # type closure
    root = "air_interpreter_data::interpreter_data::InterpreterData"
    todo, closure = [root], set()
    names = set(F.adts)
    while todo:
        t = todo.pop()
        if t in closure or t not in F.adts:
            continue
        closure.add(t)
        for v in F.adts[t]["variants"]:
            for fld in v["fields"]:
                if (t.split("::")[-1], fld["name"]) in NOT_ARCHIVED_FIELDS:
                    continue
                ty = re.sub(r"air_interpreter_cid::CID<[^<>]*>", "air_interpreter_cid::CID", fld["ty"])   # CID<T> holds a string; T is a phantom tag
                for cand in re.findall(r"[A-Za-z_][A-Za-z0-9_]*(?:::[A-Za-z_][A-Za-z0-9_]*)+", ty):
                    if cand in names and cand not in closure:
                        todo.append(cand)
    arch = {im["self"].split("<")[0] for im in F.impls if (im.get("trait_def") or "") == "rkyv::Archive"}
    chk = {im["self"] for im in F.impls if (im.get("trait_def") or "").endswith("CheckBytes")}
    ctx.floor("R-TYPE", "ADTs in the field closure of InterpreterData", len(closure), 15)
    for t in sorted(closure):
        short = t.split("::")[-1]
        ok = t in arch and any(("Archived" + short) in s for s in chk)
        ctx.require(ok, "R-TYPE", "archive:" + short, "%s: Archive + CheckBytes" % short, "%s (in InterpreterData's field closure) lacks an Archive or a CheckBytes impl: it would be decoded without validation" % t)
    # avm-interface
    fr = F.fn("avm_interface::call_request_parameters::CallRequestParams::from_raw")
    src = F.adt("air_interpreter_interface::call_request_parameters::CallRequestParams")
    read = set()
    for fn in [fr] + F.closures_of(fr):
        for bi, si, s in fn.stmts():
            for pl in [s["lhs"], s["rv"].get("place")] + [facts.op_place(o) for o in facts.rv_operands(s["rv"])]:
                if pl:
                    read |= {fld for a, fld in lib.place_fields(pl) if a == src["path"]}
        for c_ in fn.calls:
            for o in c_.args:
                pl = facts.op_place(o)
                if pl:
                    read |= {fld for a, fld in lib.place_fields(pl) if a == src["path"]}
    fields = {f["name"] for f in src["variants"][0]["fields"]}
    ctx.require(fields <= read, "R-COVER", "avm:from_raw", "from_raw reads every field of the interpreter-side CallRequestParams %s" % sorted(fields), "CallRequestParams::from_raw ignores fields %s" % sorted(fields - read))
    fp = Prov(fr)
    agg = [s for s in walk(fp.local(0)) if s[0] == "agg" and s[1].endswith("avm_interface::call_request_parameters::CallRequestParams")]
    ok = len(agg) == 1 and lib.mentions_field(agg[0][3]["service_id"], "service_id") and lib.mentions_field(agg[0][3]["function_name"], "function_name") and \
        lib.mentions_field(agg[0][3]["arguments"], "arguments") and lib.mentions_field(agg[0][3]["tetraplets"], "tetraplets")
    ctx.require(ok, "R-COVER", "avm:from_raw-pairing", "each target field is built from the same-named source field", "CallRequestParams::from_raw crosses fields")
    ro = F.fn("avm_interface::raw_outcome::RawAVMOutcome::from_interpreter_outcome")
    osrc = F.adt("air_interpreter_interface::interpreter_outcome::InterpreterOutcome")
    read = set()
    for bi, si, s in ro.stmts():
        for pl in [s["lhs"], s["rv"].get("place")] + [facts.op_place(o) for o in facts.rv_operands(s["rv"])]:
            if pl:
                read |= {fld for a, fld in lib.place_fields(pl) if a == osrc["path"]}
    for c_ in ro.calls:
        for o in c_.args:
            pl = facts.op_place(o)
            if pl:
                read |= {fld for a, fld in lib.place_fields(pl) if a == osrc["path"]}
    fields = {f["name"] for f in osrc["variants"][0]["fields"]}
    ctx.require(fields <= read, "R-COVER", "avm:raw-outcome", "from_interpreter_outcome reads every field of InterpreterOutcome", "RawAVMOutcome::from_interpreter_outcome ignores fields %s" % sorted(fields - read))
