"""C13 — streams hold exactly the merged appends; stream folds visit each value once (DESIGN §4/C13)."""
from rules import lib
from rules.lib import Prov, show, walk, canon_rel
from props import common, sides, mergetab

LEVEL = ("Mechanism level: each of the four append sites adds exactly one value on the path that records exactly one "
         "state; Stream::add_value always ends in the size check whose error edge is taken iff prev+cur+new >= 1024; "
         "the recursive cursor is refreshed from stream.cursor() on every path of both cursor methods and the fold loop "
         "re-assigns its state from met_iteration_end each round; catchable errors inside stream-fold iterations are "
         "swallowed, others propagated. The multiset statement itself is not decided."
         " Added: cursor/slice agreement (generations_count counts every generation, slice_iter skips before filtering), scoped-lookup sibling rule (find_closest / find_closest_mut), scheme hand-over and position-map tables, fold-lore phases, R-SIDES.")


def check(ctx):
    F = ctx.facts("prod")
    sides.check_sides(ctx, F)
    mergetab.positions_mapping_table(ctx, F)
    mergetab.row_scheme_agrees(ctx, F)
    mergetab.fold_lore_phases(ctx, F)
    mergetab.call_scheme_agrees(ctx, F)      # the scheme decides which position maps get an entry for a merged stream value
    ctx.clause("R-PAIR one append <-> one recorded state at the four append sites")
    ctx.clause("R-MUST/R-CONST/R-OP add_value ends in check_stream_size_limit; STREAM_MAX_SIZE == 1024; error iff sum >= MAX")
    ctx.clause("R-MUST recursive cursor refreshed on every path; fold loop re-assigns cursor_state")
    ctx.clause("R-TABLE throw_error_if_not_catchable")

    # 2. size check
    av = F.fn("stream_definition::Stream::add_value")
    ap = Prov(av)
    chk = av.calls_to("Stream::check_stream_size_limit")
    adds = [c for c in av.calls if c.path.endswith(("add_value_to_generation", "add_to_last_generation"))]
    ok = len(chk) == 1 and len(adds) == 3 and all(av.must_pass(c.target, [chk[0].bb]) for c in adds) and lib.err_propagates(av, chk[0])
    ctx.require(ok, "R-MUST", "size:always-checked", "after each of the three add sites every path to return passes check_stream_size_limit, whose result is returned",
                "Stream::add_value can return after adding a value without (or ignoring) check_stream_size_limit")
    c = F.const("stream_definition::STREAM_MAX_SIZE")
    ctx.require(c["val"] == "1024", "R-CONST", "size:const", "STREAM_MAX_SIZE == 1024", "STREAM_MAX_SIZE is %s" % c["val"])
    cl = F.fn("stream_definition::Stream::check_stream_size_limit")
    cp = Prov(cl)
    brs = [b for b in lib.bool_branches(cl, cp) if b.form[0] != "bool"]
    if ctx.require(len(brs) == 1, "R-OP", "size:one-compare", "one comparison", "check_stream_size_limit has %d comparisons" % len(brs)):
        br = brs[0]
        errb = [bi for bi, si, s in cl.stmts() if s["lhs"]["l"] == 0 and s["rv"]["k"] == "agg" and s["rv"].get("variant") == "Err"]
        rel = None
        for tgt in (br.true_bb, br.false_bb):
            if errb and lib.edge_dominates(cl, br.bb, tgt, None, errb[0]):
                rel = br.holds_on(tgt)
        ok = rel is not None and rel[0] == "<=" and rel[1][0] == "const" and str(rel[1][1]).endswith("STREAM_MAX_SIZE")
        if ok:
            sizes = sorted({s[2][0][2] for s in walk(rel[2]) if s[0] == "call" and s[1].endswith("get_size") and s[2][0][0] == "field"})
            n_adds = len([s for s in walk(rel[2]) if s[0] == "bin" and s[1] in ("Add", "AddWithOverflow")])
            ok = sizes == ["current_values", "new_values", "previous_values"] and n_adds == 2
        ctx.require(ok, "R-OP", "size:ge-max", "Err iff prev.size + cur.size + new.size >= STREAM_MAX_SIZE",
                    "check_stream_size_limit errs when `%s`" % ("%s %s %s" % (show(rel[1]), rel[0], show(rel[2])[:200]) if rel else None),
                    sample={"relation": "%s %s %s" % (show(rel[1]), rel[0], show(rel[2])[:160]) if rel else None})
        e0 = cp.local(0)
        ctx.require(any(s[0] == "agg" and s[2] == "StreamSizeLimitExceeded" for s in walk(e0)), "R-TABLE", "size:error-kind", "error is StreamSizeLimitExceeded (uncatchable)", "size error changed: %s" % show(e0))
    # Streams::add_stream_value ends in Stream::add_value with the descriptor's value/generation
    for nm in ("streams_variables::Streams::add_stream_value",):
        f = F.fn(nm)
        fp = Prov(f)
        cs = f.calls_to("Stream::add_value")
        ctx.floor("R-MUST", "Stream::add_value calls in add_stream_value", len(cs), 1)
        for i, c_ in enumerate(cs):
            ctx.require(lib.err_propagates(f, c_), "R-MUST", "add_stream_value:propagates#%d" % i, "add_value's error (size limit) propagated", "add_stream_value ignores add_value's result")

    # 1. append sites
    sites = [
        ("call_result_setter::populate_context_from_data", "Streams::add_stream_value", None),
        ("call_result_setter::populate_context_from_peer_service_result", "Streams::add_stream_value", None),
    ]
    for fname, callee, _ in sites:
        f = F.fn(fname)
        n_ok = 0
        bad = []
        for st in lib.enumerate_paths(f, max_paths=60000):
            if lib.path_result(f, st) != "Ok":
                continue
            kinds = [v for v in st.variants.values() if v in ("Scalar", "Stream", "None", "Unused")]
            n = len(lib.path_calls(st, callee))
            is_stream = "Stream" in kinds
            n_ok += 1
            if (is_stream and n != 1) or (not is_stream and n != 0):
                bad.append((kinds, n))
        ctx.require(n_ok >= 3 and not bad, "R-PAIR", "append:%s" % fname.split("::")[-1], "stream output arm appends exactly once; other arms never (%d Ok paths)" % n_ok,
                    "%s: append count per arm is wrong: %s" % (fname, bad[:4]))
    # callers record exactly one state per append: update_state_with_service_result (C05) and handle_prev_state Executed arm
    for nm, ty, app_unit, st_unit in (("ap", "::Ap<'i>", "ap::populate_context", "ap::maybe_update_trace"),
                                      ("ap_map", "::ApMap<'i>", "ap_map::populate_context", "TraceHandler::meet_ap_end")):
        cands = [f for f in F.impl_fns("ExecutableInstruction", ty, "execute") if F.impl_of(f)["self"].endswith(ty)]
        if not ctx.require(len(cands) == 1, "R-PAIR", "append:%s:anchor" % nm, "execute impl found", "execute impl for %s not found (%d)" % (nm, len(cands))):
            continue
        f = cands[0]
        n_ok, bad, full = 0, [], 0
        for st in lib.enumerate_paths(f, max_paths=200000):
            if lib.path_result(f, st) != "Ok":
                continue
            n_ok += 1
            a = len(lib.path_calls(st, app_unit))
            e = len(lib.path_calls(st, st_unit))
            if a != e or a > 1:
                bad.append((a, e))
            full += 1 if a == 1 else 0
        ctx.require(n_ok >= 1 and full >= 1 and not bad, "R-PAIR", "append:" + nm, "every Ok path of %s::execute: #append units == #state units <= 1 (%d paths, %d appending)" % (nm, n_ok, full),
                    "%s: Ok paths with (append units, state units) = %s" % (f.path, sorted(set(bad))))
        # the state unit comes after the append succeeded
        fp = Prov(f)
        au, su = f.calls_to(app_unit), f.calls_to(st_unit)
        if au and su:
            ctx.require(lib.guarded_by_ok(f, au[0], su[0].bb), "R-PAIR", "append:%s:state-after-append" % nm, "state recorded only after the append returned Ok",
                        "%s records the ap state although the append failed or did not happen" % f.path)
    # Ap helpers
    pc = F.fn("instructions::ap::populate_context")
    rows = {}
    for st in lib.enumerate_paths(pc, max_paths=20000):
        var = [v for k, v in st.variants.items() if k[0] == 1 and v in ("Scalar", "Stream")]
        rows.setdefault(var[0] if var else None, set()).add(len(lib.path_calls(st, "Streams::add_stream_value")))
    ctx.require(rows == {"Scalar": {0}, "Stream": {1}}, "R-TABLE", "append:ap:populate_context", "Stream result -> one add_stream_value; Scalar -> none", "ap::populate_context table is %s" % rows)
    for c_ in pc.calls_to("Streams::add_stream_value"):
        ctx.require(lib.err_propagates(pc, c_), "R-MUST", "append:ap:populate-propagates", "append error returned", "ap::populate_context ignores add_stream_value's result")
    mt = F.fn("instructions::ap::maybe_update_trace")
    rows = {}
    for st in lib.enumerate_paths(mt):
        flag = [val for br, val in st.conds if not isinstance(br, str) and br.expr[0] == "param"]
        rows[flag[0] if flag else None] = len(lib.path_calls(st, "TraceHandler::meet_ap_end"))
    ctx.require(rows == {True: 1, False: 0}, "R-TABLE", "append:ap:maybe_update_trace", "state recorded iff should_touch_trace", "maybe_update_trace table is %s" % rows)
    stt = F.fn("instructions::ap::should_touch_trace")
    rows = {}
    for st in lib.enumerate_paths(stt):
        var = [v for k, v in st.variants.items() if v in ("Scalar", "Stream")]
        e = lib.PathProv(stt, st.blocks).local(0)
        rows[var[0] if var else None] = e[2] if e[0] == "const" else show(e)
    ctx.require(rows == {"Stream": "1", "Scalar": "0"}, "R-TABLE", "append:ap:should_touch_trace", "should_touch_trace <=> result is a stream", "should_touch_trace table is %s" % rows)
    apf = [f for f in F.impl_fns("ExecutableInstruction", "::Ap<'i>", "execute") if F.impl_of(f)["self"].endswith("::Ap<'i>")]
    if apf:
        fp = Prov(apf[0])
        for c_ in apf[0].calls_to("ap::maybe_update_trace"):
            a0 = fp.operand(c_.args[0])
            ctx.require(a0[0] == "call" and a0[1].endswith("should_touch_trace") and a0[2][0][0] == "param", "R-FLOW", "append:ap:flag", "flag := should_touch_trace(self)", "maybe_update_trace flag is `%s`" % show(a0))
        for c_ in apf[0].calls_to("ap::populate_context"):
            a0 = fp.operand(c_.args[0])
            ctx.require(a0[0] == "field" and a0[2] == "result" and a0[1][0] == "param", "R-FLOW", "append:ap:result-arg", "populate_context(&self.result, ..)", "populate_context is given `%s`" % show(a0))
    pm = F.fn("instructions::ap_map::populate_context")
    cs_ = pm.calls_to("StreamMaps::add_stream_map_value")
    ctx.require(len(cs_) == 1 and lib.err_propagates(pm, cs_[0]) and all(pm.dominates(cs_[0].bb, r) for r in pm.returns), "R-PAIR", "append:ap_map:populate_context",
                "ap_map::populate_context = exactly one add_stream_map_value, result returned", "ap_map::populate_context no longer appends exactly once")
    # 3. recursive cursor
    for nm in ("met_fold_start", "met_iteration_end"):
        f = F.fn("recursive_stream::RecursiveStreamCursor::" + nm)
        fp = Prov(f)
        wr = [(bi, s) for bi, si, s in f.stmts() if lib.place_fields(s["lhs"]) and lib.place_fields(s["lhs"])[-1][1] == "cursor" and s["lhs"]["l"] == 1]
        ok = len(wr) == 1 and all(f.dominates(wr[0][0], r) for r in f.returns)
        if ok:
            v = fp._rv(wr[0][1]["rv"], 0, frozenset())
            ok = v[0] == "call" and v[1].endswith("Stream::cursor") and lib.mentions_param(v, "stream")
        ctx.require(ok, "R-MUST", "cursor:refresh:" + nm, "self.cursor := stream.cursor() on every path", "RecursiveStreamCursor::%s does not refresh its cursor from the stream on every path" % nm)
        r0 = fp.local(0)
        ctx.require(r0[0] == "call" and r0[1].endswith("cursor_state"), "R-FLOW", "cursor:state:" + nm, "returns cursor_state(stream) computed with the OLD cursor",
                    "RecursiveStreamCursor::%s returns `%s`" % (nm, show(r0)))
        cs_ = f.calls_to("RecursiveStreamCursor::cursor_state")
        ctx.require(len(cs_) == 1 and wr and f.dominates(cs_[0].bb, wr[0][0]) and cs_[0].bb != wr[0][0] or (len(cs_) == 1 and wr and cs_[0].bb in [b for b in range(len(f.blocks)) if wr[0][0] in f.reach_after(b)]),
                    "R-FLOW", "cursor:state-before-refresh:" + nm, "state computed before the cursor is advanced", "cursor advanced before computing the state in %s" % nm)
    # cursor and slice agree on what a "generation" is: the cursor stores generations_count() — the number of ALL
    # generations of a matrix, empty ones included — and slice_iter(cursor) must therefore skip over the same unfiltered
    # sequence.  Dropping empty generations BEFORE the skip makes the skip overshoot whenever an empty generation lies
    # below the cursor (generation numbers taken from incoming data have gaps), and a value appended while the fold
    # runs is then never visited.
    ctx.clause("R-SIBLING cursor/slice agreement: generations_count counts every generation and slice_iter skips over the unfiltered generation sequence (no filter before skip)")
    gcount = F.fn("values_matrix::ValuesMatrix::generations_count")
    ge = Prov(gcount).local(0)
    counts_all = ge[0] == "call" and ge[1].endswith("::len") and lib.mentions_field(ge, "values") and not any(x[0] == "call" and x[1].endswith(("::filter", "::count")) for x in walk(ge))
    ctx.require(counts_all, "R-SIBLING", "cursor:count-all-generations", "generations_count = values.len() (empty generations included)", "ValuesMatrix::generations_count is `%s`" % show(ge)[:160])
    sl = F.fn("values_matrix::ValuesMatrix::slice_iter")
    se = Prov(sl).local(0)
    skips = [x for x in walk(se) if x[0] == "call" and x[1].endswith("Iterator::skip")]
    ok = len(skips) == 1 and lib.mentions_field(skips[0][2][0], "values") and lib.mentions_param(skips[0][2][1], "skip") and \
        not any(x[0] == "call" and x[1].endswith(("Iterator::filter", "Iterator::filter_map", "Iterator::skip_while", "Iterator::take_while", "Iterator::flat_map")) for x in walk(skips[0][2][0]))
    ctx.require(ok, "R-SIBLING", "cursor:skip-before-filter", "slice_iter(skip) skips over the raw generation sequence, empty generations are dropped afterwards",
                "ValuesMatrix::slice_iter is `%s`: the generation cursor (which counts empty generations, see generations_count) is applied AFTER empty generations "
                "were filtered out, so it overshoots when an empty generation lies below it and stream values appended during a fold are never visited" % show(se)[:220],
                sample={"slice_iter": show(se)[:220]})
    # scoped lookup: the read accessor (`get`, used for existence / iteration) and the write accessor (`get_mut`, used by
    # every append, fold and canon) of a stream / stream-map name resolve to the SAME instance — the innermost enclosing
    # `new` scope: both walk the descriptors in reverse and take the first whose span contains the position
    ctx.clause("R-SIBLING scoped lookup: find_closest and find_closest_mut use the same traversal (reverse, first match) for streams and for stream maps")
    n_pairs = 0
    for f1 in F.fns.values():
        if f1.crate != "air" or not f1.path.endswith("::find_closest"):
            continue
        sib = F.fns.get(f1.id + "_mut") or next((g for g in F.fns.values() if g.path == f1.path + "_mut"), None)
        if not ctx.require(sib is not None, "R-SIBLING", "scope-lookup:pair:" + f1.path.split("::")[-2], "find_closest has a _mut sibling", "%s has no find_closest_mut sibling" % f1.path):
            continue
        n_pairs += 1
        def skel(fn):
            names = []
            for f_, _p in lib.family(F, fn):
                for c in f_.calls:
                    last = c.path.split("::")[-1]
                    if ("core::iter" in c.path or "Iterator" in c.path) and last in ("rev", "find", "next", "next_back", "last", "nth", "skip", "take", "filter", "position", "rposition", "rfind", "find_map", "max_by_key", "min_by_key"):
                        names.append(last)
                    if c.path.endswith("contains_position"):
                        names.append("contains_position")
            return sorted(names)
        a_, b_ = skel(f1), skel(sib)
        ctx.require(a_ == b_ and "rev" in a_, "R-SIBLING", "scope-lookup:same-traversal:" + f1.path.split("::")[-2], "read and write lookups traverse alike (%s)" % a_,
                    "%s traverses the scope descriptors with %s but its _mut sibling with %s: reads and writes of one name resolve to different `new` instances" % (f1.path, a_, b_),
                    sample={"module": f1.path.split("::")[-2], "find_closest": a_, "find_closest_mut": b_})
    ctx.floor("R-SIBLING", "find_closest/find_closest_mut pairs", n_pairs, 2)
    cst = F.fn("recursive_stream::RecursiveStreamCursor::cursor_state")
    e = Prov(cst).local(0)
    ok = any(s[0] == "call" and s[1].endswith("Stream::slice_iter") and len(s[2]) == 2 and s[2][1][0] == "field" and s[2][1][2] == "cursor" for s in walk(e))
    ctx.require(ok, "R-FLOW", "cursor:slice-from-cursor", "cursor_state iterates stream.slice_iter(self.cursor)", "cursor_state is `%s`" % show(e)[:200])
    ex = F.fn("stream_execute_helpers::execute_with_stream")
    xp = Prov(ex)
    mie = ex.calls_to("RecursiveStreamCursor::met_iteration_end")
    mfs = ex.calls_to("RecursiveStreamCursor::met_fold_start")
    it = ex.calls_to("stream_execute_helpers::execute_iterations")
    ok = len(mie) == 1 and len(mfs) == 1 and len(it) == 1
    if ok:
        # loop: iterations -> met_iteration_end -> back to the loop head switch; both write the same local
        ok = mie[0].dest["l"] == mfs[0].dest["l"] and not mie[0].dest["p"] and it[0].bb in ex.reach_after(mie[0].bb) and lib.guarded_by_ok(ex, it[0], mie[0].bb)
        vg = [v for e_, v in lib.variant_guards(ex, it[0].bb, xp) if v in ("Continue", "Exhausted")]
        ok = ok and vg == ["Continue"]
        a0 = xp.operand(it[0].args[0])
        ok = ok and lib.mentions_call(a0, "met_fold_start") or lib.mentions_call(a0, "met_iteration_end")
    ctx.require(ok, "R-MUST", "fold-loop:reassign", "loop runs iterations only on Continue and re-assigns cursor_state from met_iteration_end each round",
                "execute_with_stream's recursive loop no longer re-assigns the cursor state from met_iteration_end")
    # 4. table
    t = F.fn("stream_execute_helpers::throw_error_if_not_catchable")
    rows = {}
    for st in lib.enumerate_paths(t):
        var = [v for k, v in st.variants.items() if k[0] == 1 and v in ("Ok", "Err")]
        catch = None
        for br, val in st.conds:
            if not isinstance(br, str) and br.expr[0] == "call" and br.expr[1].endswith("is_catchable"):
                catch = val
        e = lib.PathProv(t, st.blocks).local(0)
        rows[(var[0] if var else None, catch)] = e[2] if e[0] == "agg" else ("param" if e[0] == "param" else show(e)[:40])
    ctx.require(rows == {("Ok", None): "Ok", ("Err", True): "Ok", ("Err", False): "param"}, "R-TABLE", "stream-fold:error-table",
                "Ok->Ok, catchable->Ok (swallowed), otherwise the error is returned unchanged", "throw_error_if_not_catchable table is %s" % rows, sample={"table": {str(k): v for k, v in rows.items()}})
    ei = F.fn("stream_execute_helpers::execute_iterations")
    tc = ei.calls_to("stream_execute_helpers::throw_error_if_not_catchable")
    ctx.require(len(tc) == 1 and lib.err_propagates(ei, tc[0]), "R-MUST", "stream-fold:error-propagates", "uncatchable iteration errors propagated", "execute_iterations ignores uncatchable errors")
