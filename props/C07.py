"""C07 — re-delivering already merged data changes nothing (DESIGN §4/C07)."""
from rules import lib
from rules.lib import Prov, show, walk
from props import common, mergetab, sides

LEVEL = ("Mechanism level: idempotence law on the extracted merge tables (merge(v,v) returns the previous operand, no "
         "error, for every state kind incl. the value-kind sub-table and canon), a met RequestSentBy never becomes "
         "`no_previous_state`, own pending requests are not re-issued, not-ready / not-addressed states are re-emitted "
         "unchanged and push no next peer. Equality of whole traces across re-delivery is not decided.")


def check(ctx):
    F = ctx.facts("prod")
    sides.check_sides(ctx, F)
    ctx.clause("R-TABLE idempotence: diagonal cells of call / executed-value / canon / ap tables return the previous operand without error")
    ctx.clause("R-TABLE handle_prev_state: RequestSentBy rows never re-issue an own request; met states re-emitted")
    ctx.clause("R-TABLE handle_canon_request_sent_by non-target edge re-emits canon_result, no next peer pushed")

    f, cells = mergetab.call_cells(ctx, F)
    for v in mergetab.VARIANTS:
        outs = cells.get((v, v), set())
        o = next(iter(outs)) if len(outs) == 1 else None
        ok = o is not None and (o[0] == "prev" or (v == "Executed" and o[0] == "helper"))
        ctx.require(ok, "R-TABLE", "idem:call:" + v, "merge(%s,%s) -> %s" % (v, v, o[0] if o else None),
                    "merge_call_results(%s,%s) is %s: re-delivering equal data does not keep the previous state" % (v, v, sorted(map(str, outs))),
                    sample={"cell": [v, v], "outcome": str(o)})
        if v == "Failed" and o:
            ctx.require("check_equal" in o[2], "R-TABLE", "idem:call:Failed-checked", "Failed/Failed compared with check_equal", "Failed/Failed no longer compared")
    f, ecells = mergetab.executed_cells(ctx, F)
    for k in mergetab.EXEC_KINDS:
        outs = ecells.get((k, k), set())
        ok = len(outs) == 1 and next(iter(outs))[0] == "prev"
        ctx.require(ok, "R-TABLE", "idem:executed:" + k, "merge_executed(%s,%s) -> prev_value" % (k, k),
                    "merge_executed(%s,%s) is %s" % (k, k, sorted(map(str, outs))))
    # equality helpers: Ok iff equal
    for name, what in (("are_scalars_equal", ("prev_value", "current_value")), ("are_streams_equal", ("prev_result_value", "current_result_value")),
                       ("check_equal", ("prev_call", "current_call"))):
        fn = F.fn("call_merger::utils::" + name)
        p = Prov(fn)
        tbl = {}
        for st in lib.enumerate_paths(fn, p):
            res = lib.path_result(fn, st)
            for br, val in st.conds:
                if isinstance(br, str):
                    continue
                rel = br.holds_on(br.true_bb if val else br.false_bb)
                if rel and rel[0] in ("==", "!=") and {x[1] for x in (rel[1], rel[2]) if x[0] == "param"} == set(what):
                    tbl[rel[0]] = res
        ctx.require(tbl == {"==": "Ok", "!=": "Err"}, "R-OP", "idem:eq-helper:" + name, "%s: Ok iff %s == %s" % (name, what[0], what[1]),
                    "%s decision is %s" % (name, tbl), sample={"helper": name, "table": tbl})
    f, ccells = mergetab.canon_cells(ctx, F)
    for v in ("RequestSentBy", "Executed"):
        outs = ccells.get((v, v), set())
        keeps = [who for g, who in outs if who != "error"]
        errs = [g for g, who in outs if who == "error"]
        ok = keeps == ["prev"] and all(any(("::ne(" in x[0] and x[1] is True) or ("::eq(" in x[0] and x[1] is False) for x in g) for g in errs)
        ctx.require(ok, "R-TABLE", "idem:canon:" + v, "canon merge(%s,%s) with equal payload -> prev" % (v, v),
                    "merge_canon_results(%s,%s) is %s" % (v, v, sorted(map(str, outs))))
    _, kind, rows, _ = mergetab.next_state_table(F, "ap")
    outs = rows.get(("Ap", "Ap"), set())
    ctx.require(bool(outs) and all(o[1] and not o[2] for o in outs), "R-TABLE", "idem:ap", "(Ap,Ap) -> previous ap", "ap merge (Ap,Ap) is %s" % sorted(map(str, outs)))

    # handle_prev_state rows (shared extraction with C05, restated as the idempotence-relevant subset)
    h = F.fn("prev_result_handler::handle_prev_state")
    hp = Prov(h)
    bad = []
    n = 0
    for st in lib.enumerate_paths(h, hp, max_paths=60000):
        top = [v for k, v in st.variants.items() if k[0] == 1 and v in ("Failed", "RequestSentBy", "Executed")]
        if not top:
            continue
        n += 1
        ctors = [c.path.split("::")[-1] for c in st.calls if "StateDescriptor::" in c.path]
        if "no_previous_state" in ctors:
            bad.append((top[0], ctors))
    ctx.require(n >= 6 and not bad, "R-TABLE", "redelivery:met-never-fresh", "a met state never yields no_previous_state (%d paths)" % n,
                "handle_prev_state maps a met state to no_previous_state: %s" % bad)
    hs = F.fn("canon_utils::handle_canon_request_sent_by")
    sp = Prov(hs)
    ends = hs.calls_to("TraceHandler::meet_canon_end")
    ok = len(ends) == 1 and sp.operand(ends[0].args[1])[0] == "param" and sp.operand(ends[0].args[1])[1] == "canon_result"
    ctx.require(ok, "R-FLOW", "redelivery:canon-reemit", "non-target edge re-emits canon_result unchanged", "handle_canon_request_sent_by re-emission changed")
    pushes = [c for c in hs.calls if c.path.endswith("Vec::push")]
    ctx.require(not pushes, "R-WRITERS", "redelivery:canon-no-forward", "no next-peer push when the canon request was already sent",
                "handle_canon_request_sent_by now pushes to a vector (%s)" % pushes)
    # not_ready / cant_execute_now keep the met state: constructors carry Some(prev_state) (checked structurally in C05);
    for name in ("not_ready", "cant_execute_now", "can_execute_now"):
        fn = F.fn("prev_result_handler::StateDescriptor::" + name)
        e = Prov(fn).local(0)
        ok = e[0] == "agg" and e[3]["prev_state"][0] == "agg" and e[3]["prev_state"][2] == "Some" and e[3]["prev_state"][3]["0"][0] == "param"
        ctx.require(ok, "R-TABLE", "redelivery:keeps-state:" + name, "%s keeps Some(prev_state)" % name, "StateDescriptor::%s drops the met state" % name)
