"""C26 — the interpreter's JSON value type is faithful to JSON (DESIGN §4/C26)."""
from rules import lib, facts
from rules.lib import Prov, PathProv, show, walk

LEVEL = ("Variant-correspondence level only: From<serde_json::Value> (owned and borrowed) maps each of the six variants to "
         "the same-named one; Serialize maps Null/Bool/Number/String/Array/Object to serialize_unit/bool/Number::serialize/"
         "serialize_str/sequence/map-over-all-entries; the Deserialize visitor maps bool/i64/u64/f64/str/none/unit/seq/map to "
         "the matching variant (f64 via Number::from_f64 or Null); numeric casts in the conversion/equality helpers are "
         "enumerated. The round-trip equalities themselves, float formatting and unicode escaping are NOT decided."
         " Added: numbers are serialised only through Number::serialize; scalar visitors pass the visited value through unchanged.")

VARS = ["Null", "Bool", "Number", "String", "Array", "Object"]


def serialize_table(ctx, F):
    """Serialize for JValue (the canonical bytes behind CIDs, raw values, call arguments): per-variant serializer table.
    Numbers are delegated to serde_json::Number::serialize and to nothing else — any hand-rolled i64/f64 split loses the
    u64 range above i64::MAX."""
    ser = [f for f in F.impl_fns("ser::Serialize", "JValue", "serialize") if F.impl_of(f)["self"].endswith("::JValue")]
    if ctx.require(len(ser) == 1, "R-TABLE", "ser:anchor", "Serialize for JValue found", "Serialize for JValue not found (%d)" % len(ser)):
        f = ser[0]
        rows = {}
        # serializer calls made by closures of this impl (an entry loop written as `iter().try_for_each(|..| map.serialize_entry(..))`)
        # count for the path that constructs the closure
        clos = {c_.id: {x.path.split("::")[-1] for x in c_.calls if x.path.split("::")[-1].startswith(("serialize", "collect_seq", "collect_map", "end"))} for c_ in F.closures_of(f)}
        for st in lib.enumerate_paths(f, max_paths=60000, max_visits=2):
            src = [v for k, v in st.variants.items() if k[0] == 1 and v in VARS]
            ms = {c.path.split("::")[-1] for c in st.calls if c.path.split("::")[-1].startswith(("serialize", "collect_seq", "collect_map", "end"))}
            for bb in st.blocks:
                for s_ in f.blocks[bb]["stmts"]:
                    if "lhs" in s_ and s_["rv"]["k"] == "agg" and s_["rv"].get("kind") == "closure" and s_["rv"]["cid"] in clos:
                        ms |= clos[s_["rv"]["cid"]]
            meths = tuple(sorted(ms))
            if src:
                rows.setdefault(src[0], set()).add(meths)
        def any_has(v, name):
            return any(name in m for m in rows.get(v, set()))
        ok = any_has("Null", "serialize_unit") and any_has("Bool", "serialize_bool") and any_has("Number", "serialize") and any_has("String", "serialize_str") and \
            (any_has("Array", "serialize") or any_has("Array", "collect_seq")) and any_has("Object", "serialize_map") and any_has("Object", "serialize_entry")
        cross = any_has("Bool", "serialize_str") or any_has("String", "serialize_bool") or any_has("Null", "serialize_bool") or any_has("Number", "serialize_str")
        ctx.require(ok and not cross, "R-TABLE", "ser:table", "Null->unit, Bool->bool, Number->Number::serialize, String->str, Array->seq, Object->map(entries)", "Serialize for JValue table is %s" % {k: sorted(v) for k, v in rows.items()},
                    sample={"table": {k: sorted(map(list, v)) for k, v in rows.items()}})
        num = rows.get("Number", set())
        ctx.require(num == {("serialize",)}, "R-TABLE", "ser:number-delegated", "Number -> serde_json::Number::serialize only (covers i64, u64 and f64 alike)",
                    "Serialize for JValue emits numbers through %s instead of delegating to Number::serialize: integers above i64::MAX (u64 range) are no longer written as integers, "
                    "so printed JSON, canonical bytes (CIDs) and encoded call arguments change for them" % sorted(num), sample={"number_paths": sorted(map(list, num))})
        # every entry of an object is emitted: serialize_entry sits in a loop over the map iterator with no boolean guard
        se = [c for _, c, _ in lib.family_calls(F, f, lambda c: c.path.endswith("serialize_entry"))]
        ctx.require(len(se) == 1,
                    "R-TABLE", "ser:all-entries", "every object entry is serialised (unconditional serialize_entry in the map loop)", "object entries are serialised conditionally")


def check(ctx):
    F = ctx.facts("prod")
    ctx.clause("R-TABLE From<serde_json::Value> / From<&serde_json::Value>: same-named variants")
    ctx.clause("R-TABLE Serialize for JValue: per-variant serializer method")
    ctx.clause("R-TABLE Deserialize visitor: per-visit method variant; R-FLOW scalar visitors pass the visited value through unchanged")
    ctx.clause("cast census in from.rs / partial_eq.rs")

    froms = [f for f in F.impl_fns("convert::From", "JValue", "from") if "serde_json::value::Value" in (F.impl_of(f).get("trait") or "") and F.impl_of(f)["self"].endswith("::JValue")]
    ctx.floor("R-TABLE", "From<serde_json::Value> impls", len(froms), 2)
    for f in froms:
        tag = "ref" if "&" in F.impl_of(f)["trait"] else "owned"
        rows = {}
        for st in lib.enumerate_paths(f, max_paths=20000, max_visits=2):
            src = [v for k, v in st.variants.items() if k[0] == 1 and v in VARS]
            built = None
            for bb in st.blocks:
                for s in f.blocks[bb]["stmts"]:
                    if "lhs" in s and s["rv"]["k"] == "agg" and s["rv"].get("kind") == "adt" and s["rv"]["adt"].endswith("value::JValue"):
                        built = s["rv"]["variant"]
                t = f.blocks[bb]["term"]
                if t["k"] == "call" and t["dest"]["l"] == 0 and "JValue" in t["callee"].get("full", ""):
                    # delegating constructors (e.g. JValue::array / object helpers)
                    nm = t["callee"]["path"].split("::")[-1].lower()
                    built = built or {"array": "Array", "object": "Object", "string": "String"}.get(nm, built)
            if src:
                rows.setdefault(src[0], set()).add(built)
        if not rows:
            # thin delegation: `Self::from(&value)`
            deleg = [c for c in f.calls if c.path.endswith("::from") and "JValue" in c.full]
            ctx.require(len(deleg) == 1 and any(d is not f for d in froms), "R-TABLE", "from-serde:" + tag, "owned conversion delegates to the borrowed one", "From<serde_json::Value> (%s) neither matches on the value nor delegates" % tag)
            continue
        ok = all(rows.get(v) in ({v}, {v, None}) for v in VARS)
        ctx.require(ok, "R-TABLE", "from-serde:" + tag, "From<%sserde_json::Value>: each variant maps to the same-named JValue variant" % ("&" if tag == "ref" else ""),
                    "From<serde_json::Value> (%s) table is %s" % (tag, {k: sorted(map(str, v)) for k, v in rows.items()}), sample={"table": {k: sorted(map(str, v)) for k, v in rows.items()}})
    serialize_table(ctx, F)
    vis = {}
    for f in F.fns.values():
        if f.crate == "air_interpreter_value" and "::de::" in f.path and "ValueVisitor" in f.path and "::visit_" in f.path and "{closure" not in f.path:
            vis[f.path.split("::")[-1]] = f
    ctx.floor("R-TABLE", "Deserialize visitor methods", len(vis), 9)
    want = {"visit_bool": "Bool", "visit_i64": "Number", "visit_u64": "Number", "visit_str": "String", "visit_none": "Null", "visit_unit": "Null", "visit_seq": "Array", "visit_map": "Object"}
    for m, v in want.items():
        f = vis.get(m)
        if not ctx.require(f is not None, "R-TABLE", "de:anchor:" + m, "%s found" % m, "Deserialize visitor method %s not found" % m):
            continue
        built = {s["rv"]["variant"] for bi, si, s in f.stmts() if s["rv"]["k"] == "agg" and s["rv"].get("kind") == "adt" and s["rv"]["adt"].endswith("value::JValue")}
        ctx.require(built == {v}, "R-TABLE", "de:" + m, "%s builds JValue::%s" % (m, v), "%s builds %s, expected only %s" % (m, sorted(built), v))
        if m in ("visit_bool", "visit_i64", "visit_u64", "visit_str"):
            # the payload is the visited value itself (only value-preserving conversions such as Into/From applied):
            # no cast, arithmetic, slicing or other call may sit between the visitor argument and the variant payload
            e = Prov(f).local(0)
            pay = [x[3].get("0") for x in walk(e) if x[0] == "agg" and x[1].endswith("value::JValue") and x[2] == v]
            ok = len(pay) == 1 and pay[0] is not None and pay[0][0] == "param" and pay[0][2] == 2
            ctx.require(ok, "R-FLOW", "de-payload:" + m, "%s: payload is the visited value unchanged" % m,
                        "%s builds JValue::%s from `%s`, expected the visited value itself (value-preserving conversion only)" % (m, v, show(pay[0]) if pay and pay[0] else None))
    f = vis.get("visit_f64")
    if f is not None:
        names = [c.path for c in f.calls]
        ok = any(n.endswith("Number::from_f64") for n in names) and any(n.endswith("Option::map_or") for n in names)
        ctx.require(ok, "R-TABLE", "de:visit_f64", "visit_f64 = Number::from_f64(v).map_or(Null, Number)", "visit_f64 changed shape: %s" % names)
    # casts
    casts = []
    for f in F.fns.values():
        if f.crate == "air_interpreter_value" and (f.file.endswith("value/from.rs") or f.file.endswith("value/partial_eq.rs")):
            for bi, si, s in f.stmts():
                rv = s["rv"]
                if rv["k"] == "cast" and rv["kind"] in ("IntToInt", "IntToFloat", "FloatToInt", "FloatToFloat"):
                    casts.append((f.path.split("::")[-2] + "::" + f.path.split("::")[-1], rv["from"], rv["to"]))
    WIDEN = {("f32", "f64"), ("i8", "i64"), ("i16", "i64"), ("i32", "i64"), ("isize", "i64"), ("u8", "u64"), ("u16", "u64"), ("u32", "u64"), ("usize", "u64"),
             ("i8", "f64"), ("i16", "f64"), ("i32", "f64"), ("u8", "f64"), ("u16", "f64"), ("u32", "f64"), ("f32", "f64")}
    LISTED = {("i64", "f64"), ("u64", "f64"), ("isize", "f64"), ("usize", "f64")}   # partial_eq with floats: lossy by design ("is not same as the original version")
    bad = sorted({c for c in casts if (c[1], c[2]) not in WIDEN and (c[1], c[2]) not in LISTED and c[1] != c[2]})
    ctx.require(not bad, "cast-census", "casts", "%d numeric casts in from.rs/partial_eq.rs: all widening or on the audited lossy list" % len(casts), "new narrowing / lossy numeric cast(s) in the JValue conversion helpers: %s" % bad[:5],
                sample={"casts": sorted({(c[1], c[2]) for c in casts})})
    ctx.floor("cast-census", "numeric casts found", len(casts), 3)
