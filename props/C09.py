"""C09 — merging never forgets a result (DESIGN §4/C09)."""
from rules import lib
from rules.lib import Prov, show, walk
from props import common, mergetab, sides

LEVEL = ("Mechanism level. Decision tables of the five state mergers extracted from MIR: no cell replaces a known "
         "result (Executed/Failed) by a pending request, one-sided cells keep the one state, two-sided cells of par/fold "
         "keep both; both sliders advance exactly once per merged state on every path; slider windows are restored for "
         "both contexts; CID stores are unioned (prev first, every current entry inserted) for all five stores. "
         "Positional arithmetic (a result skipped because a window is mis-sized) is not decided."
         " Added: scheme hand-over per row, position-map table and its consumer, fold-lore phase tables, fold completeness accumulates with OR, R-SIDES.")


def check(ctx):
    F = ctx.facts("prod")
    sides.check_sides(ctx, F)
    mergetab.positions_mapping_table(ctx, F)
    mergetab.row_scheme_agrees(ctx, F)
    mergetab.fold_lore_phases(ctx, F)
    ctx.clause("R-TABLE monotonicity of call and canon merge tables; one-sided cells of the five mergers return the present state")
    ctx.clause("R-MUST lock-step: each try_merge_next_state_as_* calls next_state on the previous and the current slider exactly once on every path")
    ctx.clause("R-MUST update_ctx_states restores both contexts")
    ctx.clause("R-COVER CID store union for all five stores")

    mergetab.call_merge_prefers_result(ctx, F)
    # canon monotone
    f, cells = mergetab.canon_cells(ctx, F)
    for (a, b), outs in sorted(cells.items()):
        for g, who in outs:
            ret = {"prev": a, "current": b}.get(who)
            if ret is None:
                ctx.ok("R-TABLE", "canon-merge:mono:%s/%s:err" % (a, b), "error cell (guard %s)" % (g,))
                continue
            low = mergetab.ORDER[ret] < max(mergetab.ORDER[a], mergetab.ORDER[b])
            ctx.require(not low, "R-TABLE", "canon-merge:mono:%s/%s" % (a, b), "canon merge(%s,%s) keeps %s" % (a, b, ret),
                        "merge_canon_results(prev=%s, current=%s) returns the %s operand: an executed canon is replaced by a pending request" % (a, b, who))
    ctx.floor("R-TABLE", "canon merge cells", len(cells), 4)
    # two canon states -> the merged state is what merge_canon_results(prev, current) returns, wrapped unchanged
    # (bounded inlining: holds whether the wrapping / merging sits in helpers or in the match arm itself)
    tm = F.fn("canon_merger::try_merge_next_state_as_canon", crate="air_trace_handler")
    e = Prov(tm, F=F, inline=2).local(0)
    good = False
    for s_ in walk(e):
        if s_[0] == "agg" and s_[2] == "CanonResult" and s_[1].endswith("MergerCanonResult") and "0" in s_[3]:
            for m in walk(s_[3]["0"]):
                if m[0] == "call" and m[1].endswith("merge_canon_results") and len(m[2]) == 2 and \
                        lib.mentions_call(m[2][0], "prev_slider_mut") and not lib.mentions_call(m[2][0], "current_slider_mut") and \
                        lib.mentions_call(m[2][1], "current_slider_mut") and not lib.mentions_call(m[2][1], "prev_slider_mut"):
                    good = True
    ctx.require(good, "R-FLOW", "canon-merge:both-uses-merge", "both-sided canon = CanonResult(merge_canon_results(prev state, current state)?)",
                "try_merge_next_state_as_canon no longer returns CanonResult(merge_canon_results(<previous state>, <current state>)?) for two canon states: `%s`" % show(e)[:240])
    singles = [s_ for s_ in walk(e) if s_[0] == "agg" and s_[2] == "CanonResult" and s_[1].endswith("MergerCanonResult")]
    ctx.require(len(singles) >= 1, "R-FLOW", "canon-merge:single-identity", "a met canon state is wrapped unchanged into MergerCanonResult::CanonResult",
                "try_merge_next_state_as_canon no longer wraps the met state into MergerCanonResult::CanonResult")

    mergetab.mergers_rows_and_lockstep(ctx, F)
    # call: two-sided uses merge_call_results, one-sided schemes
    f, kind, rows, lock = mergetab.next_state_table(F, "call")
    ctx.require(all("merge_call_results" in o[3] for o in rows.get(("Call", "Call"), set()) if o[0] != "Err") and rows.get(("Call", "Call")),
                "R-TABLE", "two-sided:call-uses-table", "(Call,Call) goes through merge_call_results", "(Call,Call) no longer uses merge_call_results")
    tc = F.fn("call_merger::try_merge_next_state_as_call")
    tp = Prov(tc)
    for c in tc.calls_to("call_merger::prepare_call_result"):
        a0 = show(tp.operand(c.args[0]))
        a1 = tp.operand(c.args[1])
        side = "prev" if "prev_slider_mut" in a0 and "current_slider_mut" not in a0 else "current" if "current_slider_mut" in a0 and "prev_slider_mut" not in a0 else "merged"
        sch = a1[2] if a1[0] == "agg" else show(a1)
        want = {"prev": "Previous", "current": "Current"}.get(side)
        if want:
            ctx.require(sch == want, "R-TABLE", "one-sided:call-scheme-" + side, "one-sided %s call reports scheme %s" % (side, sch),
                        "try_merge_next_state_as_call passes scheme %s with the %s state" % (sch, side))
    mergetab.call_scheme_agrees(ctx, F)

    # a stream fold is complete as soon as ONE of its generations completed (completeness accumulates with OR over the
    # generations): if a later, still pending generation could reset it, the seq after the fold stops and the results the
    # previous data already holds for the following instructions are never revisited
    ctx.clause("R-OP FoldGenerationObserver::observe_completeness accumulates with OR")
    ob = F.fn("completeness_updater::FoldGenerationObserver::observe_completeness")
    obp = Prov(ob)
    wr = [obp._rv(s_["rv"], 0, frozenset()) for bi, si, s_ in ob.stmts() if lib.place_fields(s_["lhs"]) and lib.place_fields(s_["lhs"])[-1][1] == "subgraph_complete"]
    oko = len(wr) == 1 and wr[0][0] == "bin" and wr[0][1] == "BitOr" and {("subgraph_complete" in show(wr[0][2])), ("subgraph_complete" in show(wr[0][3]))} == {True, False}
    if not oko and wr:
        # the short-circuit spelling `x = x || c` (or `if !x { x = c }` / `if c { x = true }`): every value written is either the
        # constant true or the observed completeness, and writing is conditional on the field / the parameter only
        vals = [w for w in wr]
        flat = []
        for w in vals:
            flat += w[1] if w[0] == "phi" else [w]
        only = all((x[0] == "const" and str(x[2]) == "1") or (x[0] == "param" and x[1] == "completeness") for x in flat)
        brs = [b for b in lib.bool_branches(ob, obp)]
        cond_ok = all(("subgraph_complete" in show(b.expr)) or ("completeness" in show(b.expr)) for b in brs) and bool(brs)
        never_false = not any(x[0] == "const" and str(x[2]) == "0" for x in flat)
        oko = only and cond_ok and never_false and any(x[0] == "param" or (x[0] == "const") for x in flat)
    ctx.require(oko, "R-OP", "fold-completeness:or", "subgraph_complete := subgraph_complete | completeness", "FoldGenerationObserver::observe_completeness assigns `%s`: the last generation alone decides whether the fold is complete" % ([show(w) for w in wr]))

    # update_ctx_states
    u = F.fn("state_automata::utils::update_ctx_states")
    up = Prov(u)
    cs = u.calls_to("CtxState::update_ctx_state")
    pairs = set()
    for c in cs:
        a0, a1 = up.operand(c.args[0]), up.operand(c.args[1])
        pairs.add((a0[2] if a0[0] == "field" else show(a0), a1[2] if a1[0] == "field" else show(a1)))
    ctx.require(pairs == {("prev_state", "prev_ctx"), ("current_state", "current_ctx")} and all(all(u.dominates(c.bb, r) for r in u.returns) for c in cs),
                "R-MUST", "restore:both-contexts", "update_ctx_states applies prev_state->prev_ctx and current_state->current_ctx on every path",
                "update_ctx_states applies %s" % sorted(pairs))
    us = F.fn("state_automata::utils::CtxState::update_ctx_state")
    e = Prov(us)
    sp = us.calls_to("TraceSlider::set_position_and_len")
    ok = len(sp) == 1
    if ok:
        a = [e.operand(x) for x in sp[0].args]
        ok = lib.mentions_field(a[0], "slider") and a[1][0] == "field" and a[1][2] == "pos" and a[2][0] == "field" and a[2][2] == "subtrace_len"
    ctx.require(ok, "R-FLOW", "restore:shape", "ctx.slider.set_position_and_len(self.pos, self.subtrace_len)", "CtxState::update_ctx_state changed shape")

    # CID union
    fcs = F.fn("cid_store::CidTracker::from_cid_stores")
    fp = Prov(fcs)
    ins = fcs.calls_to("HashMap::insert")
    e0 = fp.local(0)
    ok = len(ins) == 1
    if ok:
        recv = fp.operand(ins[0].args[0])
        ok = lib.mentions_param(recv, "prev_cid_map") and not lib.mentions_param(recv, "current_cid_map")
        it = [c for c in fcs.calls if c.path.endswith("IntoIterator>::into_iter")]
        ok = ok and any(lib.mentions_param(fp.operand(c.args[0]), "current_cid_map") for c in it)
        ok = ok and lib.mentions_param(e0, "prev_cid_map")
        # no conditional around insert other than the loop's Some/None
        ok = ok and not [g for g in lib.guards_of(fcs, ins[0].bb, fp)]
    ctx.require(ok, "R-COVER", "cid-union:shape", "tracker = prev map + every entry of current map (unconditional insert)",
                "CidTracker::from_cid_stores is no longer `prev ∪ current` (insert sites %d, result `%s`)" % (len(ins), show(e0)[:120]))
    fci = F.fn("cid_state::ExecutionCidState::from_cid_info")
    ip = Prov(fci)
    agg = [s for s in walk(ip.local(0)) if s[0] == "agg" and s[1].endswith("ExecutionCidState")]
    pairs = {"value_tracker": "value_store", "tetraplet_tracker": "tetraplet_store", "canon_element_tracker": "canon_element_store",
             "canon_result_tracker": "canon_result_store", "service_result_agg_tracker": "service_result_store"}
    st = F.adt("cid_state::ExecutionCidState")
    ctx.require({f["name"] for f in st["variants"][0]["fields"]} == set(pairs), "R-TYPE", "cid-union:fields", "ExecutionCidState has the five audited trackers",
                "ExecutionCidState fields changed: %s" % [f["name"] for f in st["variants"][0]["fields"]])
    if ctx.require(len(agg) == 1, "R-COVER", "cid-union:anchor", "one ExecutionCidState aggregate", "from_cid_info changed"):
        for tr, stf in pairs.items():
            v = agg[0][3].get(tr)
            ok = v is not None and v[0] == "call" and v[1].endswith("from_cid_stores") and len(v[2]) == 2 and \
                v[2][0][0] == "field" and v[2][0][2] == stf and lib.mentions_param(v[2][0], "prev_cid_info") and \
                v[2][1][0] == "field" and v[2][1][2] == stf and lib.mentions_param(v[2][1], "current_cid_info")
            ctx.require(ok, "R-COVER", "cid-union:" + tr, "%s := from_cid_stores(prev.%s, current.%s)" % (tr, stf, stf),
                        "ExecutionCidState.%s is built from `%s`" % (tr, show(v) if v else None))
    ec = F.fn("context::ExecutionCtx::new")
    ep = Prov(ec)
    agg = [s for s in walk(ep.local(0)) if s[0] == "agg" and s[1].endswith("ExecutionCtx")]
    if agg:
        v = agg[0][3].get("cid_state")
        ok = v is not None and v[0] == "call" and v[1].endswith("from_cid_info") and lib.mentions_param(v[2][0], "prev_ingredients") and lib.mentions_param(v[2][1], "current_ingredients")
        ctx.require(ok, "R-COVER", "cid-union:ctx", "exec_ctx.cid_state := from_cid_info(prev.cid_info, current.cid_info)", "ExecutionCtx::new builds cid_state from `%s`" % (show(v) if v else None))
