"""C12 — a peer never reorders the stream values it has already seen (DESIGN §4/C12)."""
from rules import lib
from rules.lib import Prov, show, walk
from props import common, sides, mergetab

LEVEL = ("Mechanism level (order pins): the iteration order previous -> current -> new in Stream::iter and slice_iter "
         "(with cursor fields paired to their matrices), compactify numbering generations in the same order with start "
         "indices 0 / |prev| / |prev|+|current|, add_value dispatching each Generation variant to its own matrix, and the "
         "source->generation mapping tables. Behaviour across runs is not decided."
         " Added: a stream value / ap present in both data keeps the previous operand (the local generation); R-SIDES.")

ORDER = ["previous_values", "current_values", "new_values"]


def chain_order(e):
    """flatten chain(chain(a,b),c) -> [a,b,c]"""
    if e[0] == "call" and e[1].endswith("Iterator::chain"):
        return chain_order(e[2][0]) + chain_order(e[2][1])
    return [e]


def first_field(e):
    fs = [s[2] for s in walk(e) if s[0] == "field" and s[2] in ORDER]
    return fs[0] if fs else None


def check(ctx):
    F = ctx.facts("prod")
    sides.check_sides(ctx, F)
    ctx.clause("R-FLOW Stream::iter / slice_iter chain previous, current, new in that order; cursor fields paired")
    ctx.clause("R-FLOW compactify: update_generations called in the same order with start 0, |prev|, |prev|+|current|")
    ctx.clause("R-TABLE add_value: Previous->previous_values, Current->current_values, New->new_values")
    ctx.clause("R-TABLE Generation::from_data and From<PreparationScheme> for ValueSource")
    ctx.clause("R-FLOW update_generations: generation = start_idx + enumerate position")

    # a value present in both data keeps the PREVIOUS side's state, hence the generation this peer already gave it:
    # taking the incoming state would file an already-seen value under the sender's numbering and reorder it locally
    ctx.clause("R-TABLE merge of a stream value / ap present in both data keeps the previous operand (the local generation number)")
    _, ecells = mergetab.executed_cells(ctx, F)
    outs = ecells.get(("Stream", "Stream"), set())
    ctx.require(len(outs) == 1 and next(iter(outs))[0] == "prev", "R-TABLE", "both:stream-keeps-prev", "merge_executed(Stream,Stream) -> prev_value",
                "merge_executed(Stream,Stream) is %s: a stream value already seen by this peer is re-filed under the incoming data's generation" % sorted(map(str, outs)))
    _, kind, rows, _ = mergetab.next_state_table(F, "ap")
    outs = rows.get(("Ap", "Ap"), set())
    ctx.require(bool(outs) and all(o[1] and not o[2] for o in outs), "R-TABLE", "both:ap-keeps-prev", "(Ap,Ap) -> previous ap state",
                "ap merge (Ap,Ap) is %s: an ap already seen by this peer takes the incoming data's generation" % sorted(map(str, outs)))

    it = F.fn("stream_definition::Stream::iter")
    e = Prov(it).local(0)
    parts = chain_order(e)
    ctx.require([first_field(x) for x in parts] == ORDER and all(x[0] == "call" and x[1].endswith("::iter") for x in parts), "R-FLOW", "iter:order",
                "iter = previous.iter().chain(current.iter()).chain(new.iter())", "Stream::iter iterates in order %s" % [first_field(x) for x in parts],
                sample={"order": [first_field(x) for x in parts]})
    si = F.fn("stream_definition::Stream::slice_iter")
    e = Prov(si).local(0)
    parts = chain_order(e)
    cur = {"previous_values": "previous_start_idx", "current_values": "current_start_idx", "new_values": "new_start_idx"}
    okp = all(x[0] == "call" and x[1].endswith("::slice_iter") and len(x[2]) == 2 and x[2][1][0] == "field" and x[2][1][2] == cur.get(first_field(x[2][0]))
              and lib.mentions_param(x[2][1], "cursor") for x in parts)
    ctx.require([first_field(x) for x in parts] == ORDER and okp, "R-FLOW", "slice_iter:order", "slice_iter chains previous, current, new, each from its own cursor index",
                "Stream::slice_iter is %s" % show(e)[:300])
    cs = F.fn("stream_definition::Stream::cursor")
    e = Prov(cs).local(0)
    ok = e[0] == "call" and e[1].endswith("StreamCursor::new") and [first_field(x) for x in e[2]] == ORDER and all(x[0] == "call" and x[1].endswith("generations_count") for x in e[2])
    ctx.require(ok, "R-FLOW", "cursor:order", "cursor = (|previous|, |current|, |new|) generations", "Stream::cursor is %s" % show(e))
    sc = F.fn("recursive_stream::StreamCursor::new")
    e = Prov(sc).local(0)
    ok = e[0] == "agg" and [e[3][k][1] if e[3][k][0] == "param" else None for k in ("previous_start_idx", "current_start_idx", "new_start_idx")] == \
        [sc.local_name(1), sc.local_name(2), sc.local_name(3)]
    ctx.require(ok, "R-FLOW", "cursor:ctor", "StreamCursor::new stores its three arguments in order", "StreamCursor::new is %s" % show(e))

    cp = F.fn("stream_definition::Stream::compactify")
    p = Prov(cp)
    ug = cp.calls_to("Stream::update_generations")
    if ctx.require(len(ug) == 3, "R-FLOW", "compactify:anchors", "three update_generations calls", "compactify calls update_generations %d times" % len(ug)):
        ug = sorted(ug, key=lambda c: c.bb)
        # dominance order
        order_ok = lib.guarded_by_ok(cp, ug[0], ug[1].bb) and lib.guarded_by_ok(cp, ug[1], ug[2].bb)
        mats = [first_field(p.operand(c.args[0])) for c in ug]
        ctx.require(order_ok and mats == ORDER, "R-FLOW", "compactify:order", "generations renumbered previous, then current, then new (each after the former succeeded)",
                    "compactify renumbers in order %s (sequential=%s)" % (mats, order_ok), sample={"order": mats})
        s0, s1, s2 = [p.operand(c.args[1]) for c in ug]
        ctx.require(s0[0] == "const" and s0[2] == "0", "R-FLOW", "compactify:start-prev", "previous generations start at 0", "previous start is `%s`" % show(s0))
        ctx.require(s1[0] == "call" and s1[1].endswith("generations_count") and first_field(s1) == "previous_values", "R-FLOW", "compactify:start-current",
                    "current generations start at |previous|", "current start is `%s`" % show(s1))
        adds = [s for s in walk(s2) if s[0] == "call" and s[1].endswith("checked_add")]
        ok = len(adds) == 1 and {first_field(x) for x in adds[0][2]} == {"previous_values", "current_values"} and all(x[0] == "call" and x[1].endswith("generations_count") for x in adds[0][2])
        ctx.require(ok, "R-FLOW", "compactify:start-new", "new generations start at |previous| + |current|", "new start is `%s`" % show(s2)[:160])
        for c in ug:
            a0 = p.operand(c.args[0])
            ctx.require(a0[0] == "call" and a0[1].endswith("slice_iter") and a0[2][1][0] == "const" and a0[2][1][2] == "0", "R-FLOW", "compactify:all-generations:" + (first_field(a0) or "?"),
                        "all generations of %s renumbered (slice_iter(0))" % first_field(a0), "compactify renumbers `%s`" % show(a0))
            ctx.require(lib.err_propagates(cp, c), "R-MUST", "compactify:propagates:" + (first_field(a0) or "?"), "error propagated", "compactify ignores an update_generations error")
    u = F.fn("stream_definition::Stream::update_generations")
    fam = lib.family_calls(F, u, "TraceHandler::update_generation")     # the loop body may live in a closure (iterator chain)
    if ctx.require(len(fam) == 1, "R-FLOW", "update_generations:anchor", "one update_generation call", "update_generations anchors changed"):
        _, tc0, up = fam[0]
        tc = [tc0]
        g = up.operand(tc[0].args[2])
        adds = [s for s in walk(g) if s[0] == "call" and s[1].endswith("checked_add")]
        ok = len(adds) == 1 and adds[0][2][0][0] == "param" and adds[0][2][0][1] == "start_idx" and any(s[0] == "call" and s[1].endswith("Iterator::enumerate") for s in walk(adds[0][2][1])) \
            and adds[0][2][1][0] == "field" and adds[0][2][1][2] == "0"
        ctx.require(ok, "R-FLOW", "update_generations:numbering", "generation = start_idx + position (enumerate index)", "update_generations assigns `%s`" % show(g)[:200], sample={"generation": show(g)[:160]})
        pos = up.operand(tc[0].args[1])
        ctx.require(any(s[0] == "call" and s[1].endswith("get_trace_pos") for s in walk(pos)), "R-FLOW", "update_generations:pos", "rewrites the state at the value's own trace position", "update_generation position is `%s`" % show(pos)[:120])
    av = F.fn("stream_definition::Stream::add_value")
    ap = Prov(av)
    want = {"Previous": ("add_value_to_generation", "previous_values"), "Current": ("add_value_to_generation", "current_values"), "New": ("add_to_last_generation", "new_values")}
    got = {}
    for c in av.calls:
        if c.path.endswith(("add_value_to_generation", "add_to_last_generation")):
            vs = [v for e_, v in lib.variant_guards(av, c.bb, ap) if v in want]
            got[vs[0] if len(vs) == 1 else str(vs)] = (c.path.split("::")[-1], first_field(ap.operand(c.args[0])))
            if c.path.endswith("add_value_to_generation"):
                gi = ap.operand(c.args[2])
                ctx.require(lib.mentions_param(gi, "generation"), "R-FLOW", "add_value:gen-arg:" + (vs[0] if vs else "?"), "generation index taken from the Generation value", "add_value passes generation `%s`" % show(gi))
            ctx.require(ap.operand(c.args[1])[0] == "param" and ap.operand(c.args[1])[1] == "value", "R-FLOW", "add_value:value-arg:" + (vs[0] if vs else "?"), "the given value is stored", "add_value stores `%s`" % show(ap.operand(c.args[1])))
    ctx.require(got == want, "R-TABLE", "add_value:dispatch", "Previous->previous_values, Current->current_values, New->new_values", "Stream::add_value dispatch is %s" % got, sample={"table": {k: list(v) for k, v in got.items()}})
    fd = F.fn("stream_definition::Generation::from_data")
    rows = {}
    for st in lib.enumerate_paths(fd):
        var = [v for k, v in st.variants.items() if k[0] == 1]
        e = lib.PathProv(fd, st.blocks).local(0)
        rows[var[0] if var else None] = (e[2], show(e[3].get("0", ("const", "-", None)))) if e[0] == "agg" else show(e)
    ctx.require(rows == {"PreviousData": ("Previous", "generation"), "CurrentData": ("Current", "generation")}, "R-TABLE", "from_data:table",
                "PreviousData->Previous(g), CurrentData->Current(g)", "Generation::from_data table is %s" % rows, sample={"table": {k: list(v) for k, v in rows.items()}})
    vs = [f for f in F.impl_fns("convert::From", "ValueSource", "from") if "PreparationScheme" in (F.impl_of(f).get("trait") or "")]
    if ctx.require(len(vs) == 1, "R-TABLE", "value_source:anchor", "From<PreparationScheme> for ValueSource found", "From<PreparationScheme> for ValueSource not found"):
        rows = {}
        for st in lib.enumerate_paths(vs[0]):
            var = [v for k, v in st.variants.items() if k[0] == 1]
            e = lib.PathProv(vs[0], st.blocks).local(0)
            rows[var[0] if var else None] = e[2] if e[0] == "agg" else show(e)
        ctx.require(rows == {"Previous": "PreviousData", "Both": "PreviousData", "Current": "CurrentData"}, "R-TABLE", "value_source:table",
                    "Previous|Both -> PreviousData, Current -> CurrentData", "ValueSource::from table is %s" % rows, sample={"table": rows})
    fm = F.fn("stream_definition::Generation::from_met_result")
    e = Prov(fm).local(0)
    ok = e[0] == "call" and e[1].endswith("Generation::from_data") and e[2][0][0] == "field" and e[2][0][2] == "value_source" and e[2][1][0] == "field" and e[2][1][2] == "generation"
    ctx.require(ok, "R-FLOW", "from_met_result", "from_met_result = from_data(result.value_source, result.generation)", "from_met_result is %s" % show(e))
