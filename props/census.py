"""Shared reachability census (C01, C23, C20): entry points, reachable set, panic-capable site enumeration."""
import json
import os

from rules import lib, facts
from rules.facts import suffix_match, norm
from rules.lib import Prov, show, walk

ENTRY_POINTS = [
    ("air::runner::execute_air", "interpreter run"),
    ("air_parser::parser::air_parser::parse", "script parsing"),
    ("air::human_readable_data::to_human_readable_data", "data pretty-printing"),
    ("air_beautifier::beautify", "beautifier"),
    ("air_beautifier::beautify_to_string", "beautifier"),
    ("air_beautifier::beautifier::Beautifier::beautify", "beautifier"),
    ("air_beautifier::beautifier::Beautifier::beautify_ast", "beautifier"),
]

# callees that can panic/abort by contract (frozen list; unknown std callees are assumed non-panicking — DESIGN §9)
PANIC_CALLEES = (
    "core::panicking::panic", "core::panicking::panic_fmt", "core::panicking::assert_failed", "core::panicking::panic_explicit",
    "core::panicking::unreachable_display", "core::panicking::panic_display", "core::panicking::panic_nounwind",
    "std::rt::begin_panic", "std::process::abort", "std::process::exit", "core::intrinsics::abort",
    "core::option::Option::unwrap", "core::option::Option::expect",
    "core::result::Result::unwrap", "core::result::Result::expect", "core::result::Result::unwrap_err", "core::result::Result::expect_err",
    "core::cell::RefCell::borrow", "core::cell::RefCell::borrow_mut",
    "alloc::vec::Vec::remove", "alloc::vec::Vec::swap_remove", "alloc::vec::Vec::insert", "alloc::vec::Vec::drain", "alloc::vec::Vec::split_off",
    "alloc::string::String::remove", "alloc::string::String::insert", "alloc::string::String::insert_str", "alloc::string::String::drain",
    "alloc::string::String::split_off", "alloc::string::String::truncate", "alloc::string::String::replace_range",
    "core::slice::<impl [T]>::split_at", "core::slice::<impl [T]>::split_at_mut", "core::slice::<impl [T]>::copy_from_slice",
    "core::slice::<impl [T]>::clone_from_slice", "core::slice::<impl [T]>::swap", "core::slice::<impl [T]>::chunks", "core::slice::<impl [T]>::windows",
    "core::slice::<impl [T]>::rotate_left", "core::slice::<impl [T]>::rotate_right", "core::slice::<impl [T]>::copy_within",
    "core::str::<impl str>::split_at", "core::iter::traits::iterator::Iterator::step_by",
    "alloc::collections::vec_deque::VecDeque::swap", "alloc::rc::Rc::try_unwrap",
    "non_empty_vec::NonEmpty::new",
    "core::iter::traits::iterator::Iterator::sum", "core::iter::traits::iterator::Iterator::product",
)
import re as _re
# integer arithmetic through the operator traits: `#[rustc_inherit_overflow_checks]` makes these panic on overflow
# in a crate built with overflow-checks (the release profile enables them)
INT_OP_RE = _re.compile(r"^<(u8|u16|u32|u64|u128|usize|i8|i16|i32|i64|i128|isize) as core::ops::arith::(Add|Sub|Mul|Div|Rem|Neg|AddAssign|SubAssign|MulAssign|DivAssign|RemAssign)(<[^>]*>)?>::\w+$")
PANIC_INDEX = ("core::ops::index::Index<I>>::index", "core::ops::index::IndexMut<I>>::index_mut", "core::ops::index::Index<Idx>>::index",
               "core::ops::index::IndexMut<Idx>>::index_mut", "core::ops::index::Index<Q>>::index", "core::ops::index::Index<&Q>>::index",
               "core::ops::index::Index<usize>>::index", "core::ops::index::IndexMut<usize>>::index_mut")

# every spelling of an Index/IndexMut call: `<Vec<T> as Index<I>>::index`, `core::str::traits::<impl Index<I> for str>::index`,
# `core::slice::index::<impl Index<I> for [T]>::index`, HashMap/BTreeMap `Index<&Q>` ...
INDEX_RE = _re.compile(r"core::ops::index::Index(Mut)?<[^<>]*(<[^<>]*>)?[^<>]*>( for [^>]+)?>::index(_mut)?$")

TRUSTED_DERIVES = ("derive macro:",)
TRUSTED_OUTER_MACROS = ("macro:log::", "macro:tracing::", "attribute macro:tracing::instrument", "macro:log_instruction", "macro:crate::log_instruction",
                        "macro:$crate::log_instruction", "macro:lazy_static", "macro:thread_local", "macro:$crate::thread::local_impl")


def entry_fns(F):
    out = []
    for path, what in ENTRY_POINTS:
        out.append(F.fn(path.split("::", 1)[1] if False else path))
    return out


def external_trait_impl_fns(F):
    """Workspace impls of traits defined outside the workspace (serde, rkyv, fmt, cmp, hash, iter, ops, convert, Drop...):
    external generic code may call them, so they are treated as reachable (over-approximation)."""
    ws = set(F.crates)
    out = []
    for im in F.impls:
        td = im.get("trait_def")
        if not td or td.split("::")[0] in ws:
            continue
        for it in im["items"]:
            f = F.fns.get(it["impl_id"])
            if f is not None:
                out.append(f)
    return out


def reach_set(F, roots=None, with_callbacks=True):
    roots = list(roots if roots is not None else entry_fns(F))
    extra = external_trait_impl_fns(F) if with_callbacks else []
    reach, parent = F.reachable_fns(roots + extra)
    return reach, parent, roots, extra


def outer_macro(ex):
    names = [e for e in (ex or ()) if not e.startswith("desugar:")]
    return names[-1] if names else None


_GENFILE = {}


def _is_lalrpop_file(path):
    r = _GENFILE.get(path)
    if r is None:
        r = False
        try:
            with open(os.path.join(facts.REPO, path)) as fh:
                r = fh.readline().startswith("// auto-generated: \"lalrpop")
        except OSError:
            pass
        _GENFILE[path] = r
    return r


def is_generated_fn(fn):
    """Function whose body is macro/derive output or generated source (lalrpop state machine): trusted base.
    Grammar actions (`__actionN`, user code copied from the .lalrpop file) are NOT trusted."""
    if "/out/" in fn.file:
        return "generated source (%s)" % os.path.basename(fn.file)
    if _is_lalrpop_file(fn.file):
        last = fn.path.split("::{closure")[0].split("::")[-1]
        if not _re.match(r"^__action\d+$", last) or "::__parse__" in fn.path:
            return "lalrpop-generated parser table code (%s)" % os.path.basename(fn.file)
    om = outer_macro(fn.ex)
    # `#[tracing::instrument]` wraps a hand-written body: the function is NOT generated; the attribute's own plumbing is
    # recognised per site (site_generated), the user's statements inside keep an empty expansion chain
    if om and (om.startswith(TRUSTED_DERIVES) or om.startswith(TRUSTED_OUTER_MACROS)) and not om.startswith("attribute macro:"):
        return om
    return None


def site_generated(ex):
    om = outer_macro(ex)
    if om is None:
        return None
    if om.startswith(TRUSTED_DERIVES) or om.startswith(TRUSTED_OUTER_MACROS):
        return om
    return None


def feasible_blocks(fn):
    """Blocks reachable when branches on block-local constants are resolved (cfg!(debug_assertions) => `const false`)."""
    seen = set()
    st = [0]
    while st:
        b = st.pop()
        if b in seen:
            continue
        seen.add(b)
        blk = fn.blocks[b]
        t = blk["term"]
        if t["k"] == "switch":
            dp = lib.op_place(t["discr"])
            val = None
            if "const" in t["discr"]:
                val = t["discr"]["const"].get("v")
            elif dp and not dp["p"]:
                for s in blk["stmts"]:
                    if "lhs" in s and s["lhs"]["l"] == dp["l"] and not s["lhs"]["p"]:
                        val = s["rv"]["op"]["const"].get("v") if (s["rv"]["k"] == "use" and "const" in s["rv"]["op"]) else None
            if val is not None:
                tb = dict((a, x) for a, x in t["targets"]).get(str(val), t["otherwise"])
                st.append(tb)
                continue
        for n in fn.succ[b]:
            if n not in seen:
                st.append(n)
    return seen


def panic_sites(F, reach):
    """Yield dicts for every panic-capable site in reachable, feasible, non-generated code."""
    for fid in sorted(reach):
        fn = F.fns[fid]
        gen = is_generated_fn(fn)
        feas = feasible_blocks(fn)
        counters = {}
        prov = None
        for bi, b in enumerate(fn.blocks):
            if b["cleanup"] or bi not in feas:
                continue
            t = b["term"]
            site = None
            if t["k"] == "assert":
                site = {"kind": "assert", "what": t["kind"], "oty": t["oty"], "ex": t["sp"].get("ex", []), "loc": (t["sp"].get("cs") or t["sp"]["s"]).split(": ")[0], "term": t}
            elif t["k"] == "call":
                p = norm(t["callee"]["path"])
                if p in PANIC_CALLEES or suffix_match(p, PANIC_INDEX) or INDEX_RE.search(p) or p.startswith("core::panicking::") or INT_OP_RE.match(p):
                    msg = None
                    for a in t["args"]:
                        c = a.get("const")
                        if c and c.get("v") is not None and c["ty"].startswith("&"):
                            msg = c["v"]
                    site = {"kind": "call", "what": p, "msg": msg, "ex": t["sp"].get("ex", []), "loc": (t["sp"].get("cs") or t["sp"]["s"]).split(": ")[0], "term": t}
            if site is None:
                continue
            sig = "%s|%s|%s" % (site["kind"], site["what"], site.get("oty") or (site.get("msg") or "")[:40])
            n = counters.get(sig, 0)
            counters[sig] = n + 1
            site.update({"fn": fn, "bb": bi, "generated_fn": gen, "generated_site": site_generated(site["ex"]), "key": "%s|%s#%d" % (fn.path, sig, n)})
            yield site
