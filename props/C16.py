"""C16 — distributed execution agrees with the sequential meaning of the script (DESIGN §4/C16)."""
from rules import lib, facts
from rules.lib import Prov, PathProv, show, walk
from props import common

LEVEL = ("Control-skeleton level only: for each structural instruction the conditions under which a child runs "
         "(seq: second child iff the first returned Ok and the subgraph is complete; par: both children always, error iff "
         "both failed; match/mismatch: child iff the comparison holds, else the dedicated catchable error; scalar fold: "
         "body not run for an empty iterable; next: body iff the iterable advances, last instruction once at exhaustion; "
         "never marks the subgraph incomplete), the scoping pairings around children (fold start/end, iterable set/remove, "
         "next before/after, new prolog/epilog on every path) and the joinable! macro's table. The semantic equivalence with "
         "a reference evaluator is NOT decided."
         " Added: a call ending without a result marks the subgraph incomplete; host results only for own requests; the fold iterator is restored on the error path of next; every variable-resolving arm of the scalar fold is joinable; set_value rewrites in place iff same depth.")


def exe(F, ty):
    fs = [f for f in F.impl_fns("ExecutableInstruction", ty, "execute") if F.impl_of(f)["self"].endswith(ty)]
    if len(fs) != 1:
        raise facts.AnalysisError("anchor lost: execute impl for %s (%d)" % (ty, len(fs)))
    return fs[0]


def child_calls(f, p):
    out = {}
    for c in f.calls:
        if c.path.endswith("::execute") and "ExecutableInstruction" in c.path:
            out.setdefault(show(p.operand(c.args[0])), []).append(c)
    return out


def check(ctx):
    F = ctx.facts("prod")
    ctx.clause("R-TABLE/R-GUARD child-execution conditions of Seq, Par, Match, MisMatch, FoldScalar, Next, Never")
    ctx.clause("R-PAIR scoping: fold start/end + iterable set/remove, next before/after, iterator advance/restore (error path included), new prolog/epilog")
    ctx.clause("R-TABLE joinable!: only is_joinable() errors become Ok with the subgraph marked incomplete")

    # what seq's completeness test relies on: a call that ends without a result marks the subgraph incomplete
    ctx.clause("R-TABLE a call that ends without a result marks the subgraph incomplete (the condition Seq tests before its second child)")
    common.pending_call_blocks_sequence(ctx, F)
    # a host result is applied only to this peer's own pending request: the lookup in call_results is guarded by
    # (sender stored in the met state == current peer).  Call ids are per-peer counters, so without the guard a result
    # is bound to another peer's call and later calls go out with arguments the script never computes there.
    ctx.clause("R-GUARD a host result is looked up only for a met state whose stored sender is the current peer")
    h_ = F.fn("prev_result_handler::handle_prev_state")
    hp_ = Prov(h_)
    rm_ = h_.calls_to("HashMap::remove")
    g_ = common.eq_guard(h_, hp_, rm_[0].bb, lambda e: lib.mentions_field(e, "peer_id") and lib.mentions_param(e, "met_result"), common.is_current_peer) if len(rm_) == 1 else None
    ctx.require(g_ is not None, "R-GUARD", "results:own-request-only", "call_results consulted only where %s" % g_,
                "handle_prev_state consults call_results without the guard (sender of the met RequestSentBy == current peer): a result of this peer can be applied to a call pending at another peer")

    # Seq
    s = exe(F, "::Seq<'i>")
    sp = Prov(s)
    ch = child_calls(s, sp)
    if ctx.require(set(ch) == {"self.0", "self.1"} and all(len(v) == 1 for v in ch.values()), "R-TABLE", "seq:children", "seq executes self.0 and self.1 once each", "Seq::execute children are %s" % {k: len(v) for k, v in ch.items()}):
        c0, c1 = ch["self.0"][0], ch["self.1"][0]
        ctx.require(lib.guarded_by_ok(s, c0, c1.bb) and lib.err_propagates(s, c0), "R-GUARD", "seq:second-after-first-ok", "second child only after the first returned Ok (error propagated)", "Seq runs its second child although the first failed")
        g = [br for br, rel in lib.guards_of(s, c1.bb, sp) if rel and rel[0] == "bool" and rel[2] is True and br.expr[0] == "call" and br.expr[1].endswith("is_subgraph_complete")]
        ctx.require(bool(g), "R-GUARD", "seq:second-iff-complete", "second child only if exec_ctx.is_subgraph_complete()", "Seq runs its second child without checking subgraph completeness",
                    sample={"guard": "is_subgraph_complete() == true"})
        fl = [c for c in s.calls_to("ExecutionCtx::flush_subgraph_completeness") if s.dominates(c.bb, c0.bb)]
        ctx.require(bool(fl), "R-PAIR", "seq:flush-before-first", "completeness flushed before the first child", "Seq no longer flushes completeness before its first child")
        ctx.require(lib.err_propagates(s, c1), "R-MUST", "seq:second-error", "second child's error propagated", "Seq swallows its second child's error")
    # Par
    pr = exe(F, "::Par<'i>")
    pp = Prov(pr)
    es = pr.calls_to("par::execute_subgraph")
    ok = len(es) == 2
    if ok:
        kinds = []
        for c in es:
            a = pp.operand(c.args[4])
            kinds.append(a[2] if a[0] == "agg" else show(a))
        ok = sorted(kinds) == ["Left", "Right"] and all(lib.err_propagates(pr, c) for c in es)
        first, second = sorted(es, key=lambda c: c.bb)
        ok = ok and lib.guarded_by_ok(pr, first, second.bb)
    ctx.require(ok, "R-TABLE", "par:both-subgraphs", "par executes the Left then the Right subgraph (uncatchable errors propagate)", "Par::execute no longer executes both subgraphs")
    eg = F.fn("par::execute_subgraph")
    egp = Prov(eg)
    rows = {}
    for st in lib.enumerate_paths(eg, egp, max_paths=60000):
        sub = [c for c in st.calls if c.path.endswith("::execute") and "ExecutableInstruction" in c.path]
        if not sub:
            continue
        var = st.variants.get((sub[0].dest["l"], ()))
        catch = None
        for br, val in st.conds:
            if not isinstance(br, str) and br.expr[0] == "call" and br.expr[1].endswith("is_catchable"):
                catch = val
        ends = len(lib.path_calls(st, "TraceHandler::meet_par_subgraph_end"))
        res = lib.path_result(eg, st)
        trace_err = any(lib.is_from_residual(c.path) for c in st.calls)
        if trace_err:
            continue
        rows.setdefault((var, catch), set()).add((ends, res))
    want = {("Ok", None): {(1, "Ok")}, ("Err", True): {(1, "Ok")}, ("Err", False): {(0, "Err")}}
    ctx.require(rows == want, "R-TABLE", "par:subgraph-table", "Ok -> Succeeded; catchable -> Failed (both close the subgraph); uncatchable -> propagated", "execute_subgraph table is %s" % {str(k): sorted(v) for k, v in rows.items()},
                sample={"table": {str(k): sorted(map(str, v)) for k, v in rows.items()}})
    sg = [show(egp.operand(c.args[0])) for c in eg.calls if c.path.endswith("::execute") and "ExecutableInstruction" in c.path]
    ctx.require(len(sg) == 1 and "par.0" in sg[0] and "par.1" in sg[0], "R-FLOW", "par:subgraph-selection", "Left -> par.0, Right -> par.1", "execute_subgraph executes `%s`" % sg)
    ppr = F.fn("par::prepare_par_result")
    rows = {}
    pprp = Prov(ppr)
    for st in lib.enumerate_paths(ppr, pprp):
        lr = {}
        for key, var in st.variants.items():
            e_ = lib.constraint_subject(pprp, key)
            if e_[0] == "param" and var in ("Succeeded", "Failed"):
                lr[e_[1]] = var
        rows.setdefault(lib.path_result(ppr, st), set()).add((lr.get("left_result"), lr.get("right_result")))
    errs = rows.get("Err", set())
    oks = rows.get("Ok", set())
    ctx.require(errs == {("Failed", "Failed")} and oks and all("Succeeded" in x for x in oks), "R-TABLE", "par:result", "par fails iff both subgraphs failed", "prepare_par_result table is %s" % rows)
    # Match / MisMatch
    for ty, errname, run_when in (("::Match<'i>", "MatchValuesNotEqual", True), ("::MisMatch<'i>", "MismatchValuesEqual", False)):
        m = exe(F, ty)
        mp = Prov(m)
        ch = child_calls(m, mp)
        am = m.calls_to("are_matchable_eq")
        ok = len(am) == 1 and set(ch) == {"self.instruction"}
        if ok:
            c = ch["self.instruction"][0]
            g = None
            for br, rel in lib.guards_of(m, c.bb, mp):
                if rel and rel[0] == "bool" and any(s_[0] == "call" and s_[3] is am[0] for s_ in walk(br.expr)):
                    g = rel[2]
            ok = g is run_when
            e0 = mp.local(0)
            ok = ok and any(s_[0] == "agg" and s_[2] == errname for s_ in walk(e0))
            a = [mp.operand(x) for x in am[0].args[:2]]
            ok = ok and a[0][0] == "field" and a[0][2] == "left_value" and a[1][0] == "field" and a[1][2] == "right_value"
        ctx.require(ok, "R-GUARD", "match:" + ty.strip(":<'i>"), "%s runs its child iff are_matchable_eq(left, right) == %s, else %s" % (ty.strip(":<'i>"), run_when, errname),
                    "%s::execute no longer runs its child exactly when the values are %s" % (ty, "equal" if run_when else "different"))
    # FoldScalar
    fs = exe(F, "::FoldScalar<'i>")
    fsp = Prov(fs)
    fc = fs.calls_to("fold_scalar::fold")
    if ctx.require(len(fc) == 1, "R-TABLE", "fold:anchor", "fold() called once", "FoldScalar::execute anchors changed"):
        vg = lib.variant_guards(fs, fc[0].bb, fsp)
        ctx.require(any(v == "ScalarBased" for e_, v in vg), "R-GUARD", "fold:empty-skips-body", "body runs only for a non-empty (ScalarBased) iterable; Empty / EmptyArray return Ok without running it",
                    "FoldScalar::execute runs the body for an empty iterable")
        a = [fsp.operand(x) for x in fc[0].args]
        ok = lib.mentions_field(a[2], "iterator") and lib.mentions_field(a[3], "instruction") and lib.mentions_field(a[4], "last_instruction")
        ctx.require(ok, "R-FLOW", "fold:args", "fold(iterable, Scalar, self.iterator.name, self.instruction, self.last_instruction)", "fold() arguments changed")
    fo = F.fn("fold_scalar::fold")
    fop = Prov(fo)
    seq = [c for c in fo.calls if c.path.endswith(("Scalars::meet_fold_start", "Scalars::set_iterable_value", "Scalars::remove_iterable_value", "Scalars::meet_fold_end")) or (c.path.endswith("::execute") and "ExecutableInstruction" in c.path)]
    names = [c.path.split("::")[-1] for c in sorted(seq, key=lambda c: c.bb)]
    ok = names == ["meet_fold_start", "set_iterable_value", "execute", "remove_iterable_value", "meet_fold_end"]
    if ok:
        ex_c = [c for c in seq if c.path.endswith("::execute")][0]
        rm = [c for c in seq if c.path.endswith("remove_iterable_value")][0]
        me = [c for c in seq if c.path.endswith("meet_fold_end")][0]
        ok = fo.must_pass(ex_c.target, [rm.bb]) and fo.must_pass(ex_c.target, [me.bb])
        r0 = fop.local(0)
        ok = ok and any(s_[0] == "call" and s_[3] is ex_c for s_ in walk(r0))
    ctx.require(ok, "R-PAIR", "fold:scoping", "meet_fold_start, set_iterable_value, body, remove_iterable_value, meet_fold_end — cleanup on every path after the body, body result returned",
                "fold() scoping sequence is %s" % names, sample={"sequence": names})
    # Next
    nx = exe(F, "::Next<'i>")
    np_ = Prov(nx)
    adv = [c for c in nx.calls if c.path.endswith("Iterable<'ctx>>::next") or c.path.endswith("::next") and "Iterable" in c.path]
    bodies = [c for c in nx.calls if c.path.endswith("::execute") and "ExecutableInstruction" in c.path]
    ok = len(adv) == 1 and len(bodies) == 2
    if ok:
        head = [c for c in bodies if "instr_head" in show(np_.operand(c.args[0])) and "last_instr_head" not in show(np_.operand(c.args[0]))]
        last = [c for c in bodies if "last_instr_head" in show(np_.operand(c.args[0]))]
        ok = len(head) == 1 and len(last) == 1
    if ctx.require(ok, "R-TABLE", "next:anchors", "one iterable.next(), body = instr_head, exhaustion = last_instr_head", "Next::execute anchors changed"):
        gh = [rel[2] for br, rel in lib.guards_of(nx, head[0].bb, np_) if rel and rel[0] == "bool" and any(s_[0] == "call" and s_[3] is adv[0] for s_ in walk(br.expr))]
        gl = [rel[2] for br, rel in lib.guards_of(nx, last[0].bb, np_) if rel and rel[0] == "bool" and any(s_[0] == "call" and s_[3] is adv[0] for s_ in walk(br.expr))]
        ctx.require(gh == [True] and gl == [False], "R-GUARD", "next:advance-iff-body", "body iff iterable.next() advanced; last instruction only at exhaustion", "Next::execute: body guard %s, last-instruction guard %s" % (gh, gl))
        before = [c for c in nx.calls_to("Scalars::meet_next_before") if nx.dominates(c.bb, head[0].bb)]
        after = nx.calls_to("Scalars::meet_next_after")
        ok2 = len(before) == 1 and len(after) == 1 and nx.must_pass(head[0].target, [after[0].bb])
        ctx.require(ok2, "R-PAIR", "next:before-after", "meet_next_before / meet_next_after around the recursive call on every path (the result is checked after)", "Next::execute scoping around the body changed")
        ctx.require(lib.err_propagates(nx, head[0]) or any(s_[0] == "call" and s_[3] is head[0] for s_ in walk(np_.local(0))), "R-MUST", "next:body-error", "body error propagated", "Next swallows the body's error")
        # the iterator advanced for the nested iteration is moved back on EVERY way out of it — also when the nested
        # iteration failed: an xor of THIS iteration that catches the failure must see this iteration's element
        back = [c for c in nx.calls if c.path.endswith("Iterable<'ctx>>::prev") or (c.path.endswith("::prev") and "Iterable" in c.path)]
        # where the nested result is inspected (`result?`): the Try::branch applied to the value of the nested execute
        trys = [c for c in nx.calls if lib.is_try_branch(c.path) and any(s_[0] == "call" and s_[3] is head[0] for s_ in walk(np_.operand(c.args[0])))]
        edges = lib.result_edges(nx, trys[0]) if len(trys) == 1 else {}
        ok3 = len(back) >= 1 and "ok" in edges and "err" in edges and all(any(nx.dominates(c.bb, edges[k]) for c in back) or
                                                                          nx.must_pass(edges[k], [c.bb for c in back]) for k in ("ok", "err"))
        ctx.require(ok3, "R-PAIR", "next:advance-restored", "iterable.next() is undone by iterable.prev() on every path after the nested iteration, error path included",
                    "Next::execute can leave after the nested iteration (through the `?` on its result) without moving the iterator back: an xor in the enclosing iteration that catches "
                    "the failure then runs with the iterator still on the later element and issues calls with arguments the sequential reading never produces")
    # scalar fold waits for its iterable: every arm that resolves a variable goes through joinable! (a not-yet-delivered
    # variable makes the fold wait, it must not surface as a catchable error that an xor would "handle")
    ctx.clause("R-SIBLING FoldScalar::execute: every variable-resolving arm of the iterable match is wrapped in joinable!")
    fsx = exe(F, "::FoldScalar<'i>")
    creators = [c for c in fsx.calls if c.path.split("::")[-1].startswith("create_") and "iterable" in c.path.split("::")[-1]]
    ctx.floor("R-SIBLING", "iterable constructors in FoldScalar::execute", len(creators), 5)
    for c in creators:
        e_ = lib.result_edges(fsx, c)
        err = e_.get("err")
        okj = err is not None and any(x.bb in fsx.reach_from(err) and x.path.endswith("is_joinable") for x in fsx.calls)
        ctx.require(okj, "R-SIBLING", "fold-scalar:joinable:" + c.path.split("::")[-1], "%s: its error is tested with is_joinable (joinable!)" % c.path.split("::")[-1],
                    "FoldScalar::execute propagates the error of %s without the joinable! test: a fold over a variable that has not arrived yet raises a catchable error instead of waiting, and an enclosing xor runs its handler"
                    % c.path.split("::")[-1])
    # scalar scoping: a value is rewritten in place only when the cell belongs to the CURRENT depth; otherwise a new cell
    # is pushed for this depth (so an assignment made inside an iteration dies with that iteration)
    ctx.clause("R-OP ValuesSparseMatrix::set_value rewrites in place iff the last cell's depth equals the current depth (single condition)")
    sv = F.fn("values_sparse_matrix::ValuesSparseMatrix::set_value")
    svp = Prov(sv)
    conds = [b for b in lib.bool_branches(sv, svp) if not lib.is_logging_expansion(sv.blocks[b.bb]["term"].get("ex", ()))]
    dep = [b for b in conds if b.form[0] == "==" and {("depth" in show(b.form[1])), ("depth" in show(b.form[2]))} == {True} and "current_depth" in (show(b.form[1]) + show(b.form[2]))]
    other = [show(b.expr)[:60] for b in conds if b not in dep and ("is_none" in show(b.expr) or "is_some" in show(b.expr) or "value" in show(b.expr))]
    ctx.require(len(dep) == 1 and not other, "R-OP", "scalars:set_value-rewrite-iff-same-depth", "in-place rewrite iff last_cell.depth == current_depth",
                "ValuesSparseMatrix::set_value's in-place-rewrite condition changed (depth tests: %d, further tests on the cell's value: %s): a value assigned inside a fold iteration can land in an outer scope's cell and outlive the iteration"
                % (len(dep), other))
    # Never
    nv = exe(F, "::Never")
    ok = len(nv.calls_to("ExecutionCtx::make_subgraph_incomplete")) == 1 and all(nv.dominates(nv.calls_to("ExecutionCtx::make_subgraph_incomplete")[0].bb, r) for r in nv.returns)
    ctx.require(ok, "R-TABLE", "never", "never marks the subgraph incomplete and returns Ok", "Never::execute changed")
    # New
    nw = exe(F, "::New<'i>")
    nwp = Prov(nw)
    pro, epi = nw.calls_to("new::prolog"), nw.calls_to("new::epilog")
    body = [c for c in nw.calls if c.path.endswith("::execute") and "ExecutableInstruction" in c.path]
    ok = len(pro) == 1 and len(epi) == 1 and len(body) == 1 and nw.dominates(pro[0].bb, body[0].bb) and nw.must_pass(body[0].target, [epi[0].bb]) and all(nw.dominates(epi[0].bb, r) for r in nw.returns)
    ctx.require(ok, "R-PAIR", "new:prolog-epilog", "prolog before the body, epilog on every path after it (the body's result is evaluated after the epilog)", "New::execute no longer runs the epilog on every path")
    for name, table in (("new::prolog", {"Stream": "meet_scope_start", "StreamMap": "meet_scope_start", "Scalar": "meet_new_start_scalar", "CanonStream": "meet_new_start_canon_stream", "CanonStreamMap": "meet_new_start_canon_stream_map"}),
                        ("new::epilog", {"Stream": "meet_scope_end", "StreamMap": "meet_scope_end", "Scalar": "meet_new_end_scalar", "CanonStream": "meet_new_end_canon_stream", "CanonStreamMap": "meet_new_end_canon_stream_map"})):
        f = F.fn(name)
        got = {}
        for st in lib.enumerate_paths(f, max_paths=20000):
            var = [v for k, v in st.variants.items() if v in table]
            if var:
                got[var[0]] = [c.path.split("::")[-1] for c in st.calls if c.path.split("::")[-1].startswith(("meet_scope", "meet_new_"))]
        ctx.require({k: v[:1] for k, v in got.items()} == {k: [v] for k, v in table.items()}, "R-SIBLING", "new:" + name.split("::")[-1], "%s dispatch %s" % (name.split("::")[-1], table), "%s dispatch is %s" % (name, got))
    # joinable! (sample the macro in Match::execute)
    m = exe(F, "::Match<'i>")
    mp = Prov(m)
    am = m.calls_to("are_matchable_eq")[0]
    rows = {}
    for st in lib.enumerate_paths(m, mp, max_paths=60000):
        var = st.variants.get((am.dest["l"], ()))
        j = None
        for br, val in st.conds:
            if not isinstance(br, str) and br.expr[0] == "call" and br.expr[1].endswith("is_joinable"):
                j = val
        if var == "Err":
            rows[(var, j)] = (lib.path_result(m, st), len(lib.path_calls(st, "ExecutionCtx::make_subgraph_incomplete")))
    ctx.require(rows == {("Err", True): ("Ok", 1), ("Err", False): ("Err", 0)}, "R-TABLE", "joinable", "joinable error -> Ok + subgraph incomplete; any other error propagated", "joinable! table (in Match::execute) is %s" % rows,
                sample={"table": {str(k): str(v) for k, v in rows.items()}})
