"""C17 — security tetraplets describe where each argument came from (DESIGN §4/C17)."""
from rules import lib, facts
from rules.lib import Prov, show, walk

LEVEL = ("Mechanism level: a call's own tetraplet is built from its resolved triplet and the same Rc is what is stored with "
         "the result; constants get literal_tetraplet(init_peer_id); call requests carry service id / function name of that "
         "tetraplet and the tetraplets returned by resolve_args; sibling rule over every JValuable::apply_lambda_with_tetraplets "
         "impl — the returned tetraplet must come from populate_tetraplet_with_lambda (or the canon-map selector's "
         "update_tetraplet_with_path) — and the helper's table (value path -> add_lens(lambda), functor -> fresh tetraplet with "
         "the functor as LENS). The CanonStream impl is the deviant sibling (reproduced known finding). Correctness of lens "
         "strings themselves is not decided."
         " Added: call-site table of update_tetraplet_with_path (element -> prefix kept), every value aggregate's get_tetraplet reads all provenance fields.")


def check(ctx):
    F = ctx.facts("prod")
    ctx.clause("R-FLOW ResolvedCall::new: tetraplet = Rc::new(resolve(triplet).into()); request params from that tetraplet and resolve_args")
    ctx.clause("R-FLOW resolve_const -> literal_tetraplet(init_peer_id)")
    ctx.clause("R-SIBLING apply_lambda_with_tetraplets impls produce their tetraplet through populate_tetraplet_with_lambda / update_tetraplet_with_path")
    ctx.clause("R-TABLE populate_tetraplet_with_lambda: ValuePath -> add_lens(lambda), Functor -> SecurityTetraplet::new(\"\", \"\", \"\", lambda)")

    rn = F.fn("resolved_call::ResolvedCall::new")
    rp = Prov(rn)
    agg = [s for s in walk(rp.local(0)) if s[0] == "agg" and s[1].endswith("ResolvedCall")]
    ok = len(agg) == 1
    if ok:
        t = agg[0][3]["tetraplet"]
        ok = any(s[0] == "call" and s[1].endswith("triplet::resolve") for s in walk(t)) and lib.mentions_field(t, "triplet") and lib.mentions_param(t, "raw_call")
    ctx.require(ok, "R-FLOW", "call:tetraplet-from-triplet", "ResolvedCall.tetraplet := resolve(&raw_call.triplet, ..)?.into()", "ResolvedCall::new builds its tetraplet from `%s`" % (show(agg[0][3]["tetraplet"])[:160] if agg else None))
    cf = [f for f in F.impl_fns("convert::From", "SecurityTetraplet", "from") if "ResolvedTriplet" in (F.impl_of(f).get("trait") or "")]
    if ctx.require(len(cf) == 1, "R-FLOW", "call:triplet-into:anchor", "From<ResolvedTriplet> for SecurityTetraplet found", "From<ResolvedTriplet> for SecurityTetraplet not found"):
        e = Prov(cf[0]).local(0)
        a = [s for s in walk(e) if s[0] == "agg" and s[1].endswith("SecurityTetraplet")]
        ok = len(a) == 1 and all(a[0][3][k][0] == "field" and a[0][3][k][2] == k for k in ("peer_pk", "service_id", "function_name")) and a[0][3]["lens"][0] in ("call", "const")
        ctx.require(ok, "R-FLOW", "call:triplet-into", "peer_pk/service_id/function_name copied field by field, empty lens", "From<ResolvedTriplet> builds `%s`" % show(e)[:200])
    pr = F.fn("resolved_call::ResolvedCall::prepare_request_params")
    pp = Prov(pr)
    new = pr.calls_to("CallRequestParams::new")
    if ctx.require(len(new) == 1, "R-FLOW", "request:anchor", "CallRequestParams::new once", "prepare_request_params changed"):
        a = [pp.operand(x) for x in new[0].args]
        ok = lib.mentions_field(a[0], "service_id") and lib.mentions_param(a[0], "tetraplet") and lib.mentions_field(a[1], "function_name") and lib.mentions_param(a[1], "tetraplet") \
            and lib.mentions_field(a[2], "call_arguments") and lib.mentions_call(a[2], "resolve_args") and lib.mentions_call(a[3], "serialize") and lib.mentions_field(a[3], "tetraplets") and lib.mentions_call(a[3], "resolve_args")
        ctx.require(ok, "R-FLOW", "request:fields", "request = (tetraplet.service_id, tetraplet.function_name, resolved args, serialized resolved tetraplets)", "CallRequestParams built from %s" % [show(x)[:60] for x in a])
    ex = F.fn("resolved_call::ResolvedCall::execute")
    xp = Prov(ex)
    for c in ex.calls_to("ResolvedCall::prepare_request_params"):
        a = xp.operand(c.args[2])
        ctx.require(lib.mentions_field(a, "tetraplet") and lib.mentions_param(a, "self"), "R-FLOW", "request:own-tetraplet", "request params use the call's own tetraplet", "prepare_request_params is given `%s`" % show(a))
    ra = F.fn("resolved_call::ResolvedCall::resolve_args")
    e = Prov(ra).local(0)
    a = [s for s in walk(e) if s[0] == "agg" and s[1].endswith("ResolvedArguments")]
    ok = len(a) == 1 and lib.mentions_call(a[0][3]["tetraplets"], "collect_args") and lib.mentions_call(a[0][3]["call_arguments"], "collect_args")
    ctx.require(ok, "R-FLOW", "request:resolve_args", "arguments and tetraplets both come from collect_args", "resolve_args changed")
    ca = F.fn("resolved_call::ResolvedCall::collect_args")
    cp = Prov(ca)
    pushes = [c for c in ca.calls if c.path.endswith("Vec::push")]
    res = [c for c in ca.calls if c.path.endswith("::resolve")]
    ok = len(pushes) == 2 and len(res) == 1 and all(any(s[0] == "call" and s[3] is res[0] for s in walk(cp.operand(p.args[1]))) for p in pushes)
    if ok:
        fields = sorted(str([s[2] for s in walk(cp.operand(p.args[1])) if s[0] == "field"][:1]) for p in pushes)
        ok = fields == ["['0']", "['1']"]
    ctx.require(ok, "R-FLOW", "request:collect_args", "value := resolve().0, tetraplets := resolve().1, one pair per argument", "collect_args no longer pairs each value with its own tetraplets")
    rc = F.fn("resolvable_impl::resolve_const")
    rcp = Prov(rc)
    # directly or through a thin helper that always builds it (bounded inlining / forwarding)
    lt = lib.forwarding_calls(F, rc, "SecurityTetraplet::literal_tetraplet")
    ok = len(lt) == 1 and all(rc.dominates(lt[0][0].bb, r) for r in rc.returns) and \
        not [c for c in rc.calls if c.path.endswith(("SecurityTetraplet::new", "SecurityTetraplet::add_lens"))]
    if ok:
        node = Prov(rc, F=F, inline=2)._call(lt[0][0], 0, frozenset())
        inner = lib.inlined_calls(node, "SecurityTetraplet::literal_tetraplet")
        ok = len(inner) == 1 and lib.mentions_field(inner[0][2][0], "init_peer_id")
    ctx.require(ok, "R-FLOW", "const:literal-tetraplet", "constants carry literal_tetraplet(init_peer_id) (the only tetraplet built, on every path)", "resolve_const no longer builds exactly literal_tetraplet(init_peer_id)")
    lf = F.fn("polyplets::tetraplet::SecurityTetraplet::literal_tetraplet") if F.find("SecurityTetraplet::literal_tetraplet") else None
    if lf is not None:
        e = Prov(lf).local(0)
        a = [s for s in walk(e) if s[0] == "agg" and s[1].endswith("SecurityTetraplet")]
        ok = len(a) == 1 and a[0][3]["peer_pk"][0] in ("param", "call") and all(show(a[0][3][k]).count("init_peer_id") == 0 for k in ("service_id", "function_name", "lens"))
        ctx.require(ok, "R-FLOW", "const:literal-shape", "literal tetraplet = (peer, \"\", \"\", \"\")", "literal_tetraplet builds `%s`" % show(e)[:200])

    # helper table
    pl = F.fn("value_types::utils::populate_tetraplet_with_lambda")
    rows = {}
    for st in lib.enumerate_paths(pl):
        var = [v for k, v in st.variants.items() if v in ("ValuePath", "Functor")]
        pe = lib.PathProv(pl, st.blocks)
        e = pe.local(0)
        if var and var[0] == "ValuePath":
            al = lib.path_calls(st, "SecurityTetraplet::add_lens")
            okp = len(al) == 1 and any(s[0] == "call" and s[1].endswith("to_string") and lib.mentions_param(s, "lambda") for s in walk(pe.operand(al[0].args[1]))) and e[0] == "param" and e[1] == "tetraplet"
            rows["ValuePath"] = okp
        elif var:
            okp = e[0] == "call" and e[1].endswith("SecurityTetraplet::new") and all(a[0] == "const" and a[2] == "" for a in e[2][:3]) and \
                any(s[0] == "call" and s[1].endswith("to_string") and lib.mentions_param(s, "lambda") for s in walk(e[2][3]))
            rows["Functor"] = okp
    ctx.require(rows == {"ValuePath": True, "Functor": True}, "R-TABLE", "helper:table", "ValuePath -> tetraplet.add_lens(lambda.to_string()); Functor -> new(\"\", \"\", \"\", lambda.to_string())",
                "populate_tetraplet_with_lambda table is %s" % rows, sample={"table": rows})
    ut = F.fn("lambda_applier::applier::update_tetraplet_with_path")
    e = Prov(ut).local(0)
    a = [s for s in walk(e) if s[0] == "agg" and s[1].endswith("SecurityTetraplet")]
    ok = len(a) == 1 and lib.mentions_param(a[0][3]["lens"], "original_path") and all(lib.mentions_param(a[0][3][k], "original_tetraplet") for k in ("peer_pk", "service_id", "function_name"))
    ctx.require(ok, "R-FLOW", "helper:update_tetraplet_with_path", "keeps peer/service/function of the original tetraplet, lens from the path", "update_tetraplet_with_path builds `%s`" % show(e)[:200])

    # update_tetraplet_with_path(base, path, prefix): the helper keeps the base's own lens only when `prefix` is true.
    # An ELEMENT of a canon stream map carries the lens it was stored with, so selecting further inside it must prefix
    # (true); the map's own tetraplet has an empty lens, there the flag is false.  Table over all call sites:
    ctx.clause("R-TABLE update_tetraplet_with_path call sites: element tetraplet -> prefix kept (true); container tetraplet -> false")
    sites = {}
    for g in F.fns.values():
        if g.crate != "air":
            continue
        for f_, c_, p_ in lib.family_calls(F, g, "applier::update_tetraplet_with_path") if g.kind != "Closure" else []:
            base, flag = p_.operand(c_.args[0]), p_.operand(c_.args[2])
            kind = "container" if lib.mentions_call(base, "CanonStreamMap::tetraplet") else ("element" if any(x[0] == "call" and x[1].endswith(("::nth", "::next", "::get")) for x in walk(base)) else show(base)[:60])
            val = {"1": "true", "0": "false"}.get(flag[2], str(flag[2])) if flag[0] == "const" else show(flag)[:40]
            sites.setdefault(kind, set()).add(val)
    ctx.require(sites == {"element": {"true"}, "container": {"false"}}, "R-TABLE", "helper:prefix-flag", "element tetraplets keep their stored lens as prefix, container tetraplets start a fresh lens",
                "update_tetraplet_with_path is called with flags %s, expected {element: true, container: false}: a lens stored with a canon-map element would be dropped from the tetraplet handed to services" % {k: sorted(v) for k, v in sites.items()},
                sample={"sites": {k: sorted(v) for k, v in sites.items()}})
    pfx = [b_ for b_ in lib.bool_branches(ut) if b_.expr[0] == "param" and b_.expr[1] == "prefix_with_path"]
    okp = len(pfx) == 1
    if okp:
        tb = {}
        for st in lib.enumerate_paths(ut):
            for br, val in st.conds:
                if not isinstance(br, str) and br.expr[0] == "param" and br.expr[1] == "prefix_with_path":
                    le = [x for x in walk(lib.PathProv(ut, st.blocks).local(0)) if x[0] == "agg" and x[1].endswith("SecurityTetraplet")]
                    tb[val] = bool(le) and lib.mentions_field(le[0][3]["lens"], "lens")
        okp = tb == {True: True, False: False}
    ctx.require(okp, "R-TABLE", "helper:prefix-semantics", "prefix_with_path=true keeps original.lens + path, false -> path only", "update_tetraplet_with_path no longer keeps the original lens exactly when prefix_with_path is set")

    # provenance read-back: every *Aggregate with a get_tetraplet method rebuilds the tetraplet from ALL its provenance
    # fields (everything except the value and its trace position) — obligations derived from the struct definitions
    ctx.clause("R-COVER get_tetraplet of every value aggregate reads all of its provenance fields")
    n_agg = 0
    for pth, adt in F.adts.items():
        if not (pth.startswith("air::execution_step::value_types::scalar::values::") and pth.endswith("Aggregate")):
            continue
        gts = [f_ for f_ in F.find(pth.split("::")[-1] + "::get_tetraplet") if f_.crate == "air"]
        if not gts:
            continue
        n_agg += 1
        fields = [fl["name"] for v in adt["variants"] for fl in v["fields"] if fl["name"] not in ("result", "trace_pos")]
        e_ = Prov(gts[0]).local(0)
        missing = [fl for fl in fields if not lib.mentions_field(e_, fl)]
        ctx.require(not missing, "R-COVER", "agg-tetraplet:" + pth.split("::")[-1], "%s::get_tetraplet uses %s" % (pth.split("::")[-1], fields),
                    "%s::get_tetraplet ignores its provenance field(s) %s: the tetraplet read back for a stored value loses that part (e.g. the lens)" % (pth.split("::")[-1], missing),
                    sample={"aggregate": pth.split("::")[-1], "fields": fields})
    ctx.floor("R-COVER", "value aggregates with get_tetraplet", n_agg, 2)

    # siblings
    impls = F.impl_fns("jvaluable::JValuable", "", "apply_lambda_with_tetraplets")
    ctx.floor("R-SIBLING", "apply_lambda_with_tetraplets impls", len(impls), 5)
    for f in impls:
        self_ty = F.impl_of(f)["self"]
        short = self_ty.split("::")[-1].rstrip(">")
        p = Prov(f)
        e = p.local(0)
        oks = [s for s in walk(e) if s[0] == "agg" and s[2] == "Ok" and s[3]["0"][0] == "tuple"]
        if not ctx.require(len(oks) == 1, "R-SIBLING", "impl:%s:shape" % short, "returns Ok((value, tetraplet, provenance))", "%s impl changed shape" % self_ty):
            continue
        tet = oks[0][3]["0"][1][1]
        alts = tet[1] if tet[0] == "phi" else [tet]
        bad = []
        for a in alts:
            good = (a[0] == "call" and a[1].endswith("populate_tetraplet_with_lambda") and lib.mentions_param(a[2][1], "lambda")) or \
                   (a[0] == "field" and a[2] == "tetraplet" and lib.mentions_call(a, "select_by_lambda_from_canon_map"))
            if not good:
                bad.append(show(a)[:110])
        if "core::cell::Ref<" in self_ty:
            users = [g.path for g in F.fns.values() if g is not f and g.impl != f.impl and any("core::cell::Ref<" in t and "ValueAggregate" in t for t in g.locals)]
            fields = [pth for pth, adt in F.adts.items() for v in adt["variants"] for fl in v["fields"] if "RefCell<alloc::vec::Vec<" in fl["ty"] and "ValueAggregate" in fl["ty"]]
            ctx.require(not users and not fields, "R-TYPE", "impl:%s:dead" % short, "impl for Ref<Vec<ValueAggregate>> is never instantiated (no RefCell<Vec<ValueAggregate>> field, no such local elsewhere)",
                        "JValuable for Ref<Vec<ValueAggregate>> is now instantiated (%s %s): its functor arm builds a tetraplet without lens" % (users[:2], fields[:2]))
            continue
        ctx.require(not bad, "R-SIBLING", "impl:%s" % short, "%s: tetraplet := populate_tetraplet_with_lambda(.., lambda) / canon-map selector" % short,
                    "%s::apply_lambda_with_tetraplets returns a tetraplet that bypasses populate_tetraplet_with_lambda: %s — the lens applied to the value is not recorded (or recorded in the wrong position)" % (short, bad),
                    sample={"impl": self_ty, "tetraplet": show(tet)[:200]})
    # canon-map selector uses update_tetraplet_with_path on every branch
    sm = F.fn("lambda_applier::applier::select_by_path_from_canon_map")
    n_upd = len(sm.calls_to("applier::update_tetraplet_with_path")) + len(sm.calls_to("applier::select_by_path_from_canon_map_stream"))
    ctx.require(n_upd >= 3, "R-SIBLING", "canon-map:selector", "every branch of the canon-map selector derives the tetraplet via update_tetraplet_with_path", "select_by_path_from_canon_map has only %d tetraplet-deriving calls" % n_upd)
