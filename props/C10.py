"""C10 — produced traces are structurally well formed (DESIGN §4/C10)."""
from rules import lib, facts
from rules.lib import Prov, PathProv, show, walk

LEVEL = ("Mechanism level: placeholder discipline (every StateInserter::from_keeper placeholder is replaced by the FSM's "
         "completion method, and the completion events are reached on every non-uncatchable path of the par / stream-fold "
         "executors incl. the catchable-error arm), the shape of the counting helpers (ParBuilder::track, "
         "PositionsTracker::len, the four lore-ctor recorders, into_subtrace_lore emits exactly [before, after], the "
         "ctor state chain and finish()), stub generations are always paired with a New-generation append and compactify "
         "runs before data is produced, and update_generation rewrites exactly Ap and Executed(Stream) states. That sizes "
         "exactly cover for all nestings is NOT decided."
         " Added: the instance popped at scope end is the one compactified; the lore-constructor queue finishes every queued constructor unconditionally.")


def check(ctx):
    F = ctx.facts("prod")
    ctx.clause("R-PAIR placeholder discipline: from_keeper <-> insert on the completion methods; completion events on all non-uncatchable paths")
    ctx.clause("R-FLOW bookkeeping shapes: ParBuilder::track, PositionsTracker::len, lore ctor recorders, into_subtrace_lore, CtorState chain")
    ctx.clause("R-PAIR no stub survives: stub producers pair with Generation::New appends; compactify before data is produced")
    ctx.clause("R-TABLE TraceHandler::update_generation rewrites exactly Ap and Call(Executed(Stream))")

    # 1. placeholders
    fk = F.fn("state_inserter::StateInserter::from_keeper")
    fkp = Prov(fk)
    push = [c for c in fk.calls if c.path.endswith("::push")]
    ok = len(push) == 1 and show(fkp.operand(push[0].args[1])).endswith("par(0_usize, 0_usize)") or (len(push) == 1 and "ExecutedState>::par" in show(fkp.operand(push[0].args[1])))
    pos = [s for s in walk(fkp.local(0)) if s[0] == "agg" and s[1].endswith("StateInserter")]
    ok = ok and len(pos) == 1 and lib.mentions_call(pos[0][3]["position"], "result_trace_next_pos")
    np_c = fk.calls_to("DataKeeper::result_trace_next_pos")
    ok = ok and len(np_c) == 1 and fk.dominates(np_c[0].bb, push[0].bb)
    ctx.require(ok, "R-PAIR", "placeholder:from_keeper", "records the next position, THEN pushes the placeholder par(0,0)", "StateInserter::from_keeper changed shape")
    ins = F.fn("state_inserter::StateInserter::insert")
    ip = Prov(ins)
    w = [c for c in ins.calls if "IndexMut" in c.path]
    ok = len(w) == 1 and lib.mentions_field(ip.operand(w[0].args[1]), "position") and lib.mentions_param(ip.operand(w[0].args[1]), "self")
    ctx.require(ok, "R-PAIR", "placeholder:insert", "insert overwrites result_trace[self.position]", "StateInserter::insert no longer overwrites the recorded position")
    cg = F.callgraph()
    callers_fk = {F.fns[f].path.split("::")[-2] + "::" + F.fns[f].path.split("::")[-1] for f, o in cg.items() if fk.id in o}
    callers_in = {F.fns[f].path.split("::")[-2] + "::" + F.fns[f].path.split("::")[-1] for f, o in cg.items() if ins.id in o}
    ctx.require(callers_fk == {"ParFSM::from_left_started", "FoldFSM::from_fold_start"} and callers_in == {"ParFSM::right_completed", "FoldFSM::meet_fold_end"}, "R-PAIR", "placeholder:pairing",
                "placeholders created by {ParFSM::from_left_started, FoldFSM::from_fold_start}, filled by {ParFSM::right_completed, FoldFSM::meet_fold_end}", "placeholder creators %s / fillers %s" % (sorted(callers_fk), sorted(callers_in)))
    for nm, build in (("par_fsm::ParFSM::right_completed", "ParBuilder::build"), ("fold_fsm::FoldFSM::meet_fold_end", None)):
        f = F.fn(nm)
        p = Prov(f)
        c = f.calls_to("StateInserter::insert")
        ok = len(c) == 1 and all(f.dominates(c[0].bb, r) for r in f.returns)
        if ok:
            st = p.operand(c[0].args[2])
            ok = (lib.mentions_call(st, build) if build else any(s[0] == "agg" and s[2] == "Fold" and lib.mentions_field(s, "result_lore") for s in walk(st)))
        ctx.require(ok, "R-PAIR", "placeholder:filled-by:" + nm.split("::")[-1], "%s always inserts the built state" % nm.split("::")[-1], "%s no longer always fills the placeholder with the built state" % nm)
    rc = F.fn("par_fsm::ParFSM::right_completed")
    tr = rc.calls_to("ParBuilder::track")
    bd = rc.calls_to("ParBuilder::build")
    ctx.require(len(tr) == 1 and len(bd) == 1 and rc.dominates(tr[0].bb, bd[0].bb), "R-PAIR", "par:track-before-build", "right size tracked before the par state is built", "right_completed builds the par state before tracking the right subgraph")
    lc = F.fn("par_fsm::ParFSM::left_completed")
    ctx.require(len(lc.calls_to("ParBuilder::track")) == 1, "R-PAIR", "par:left-tracked", "left size tracked at left completion", "left_completed no longer tracks the left subgraph size")
    # executor side: par
    eg = F.fn("par::execute_subgraph")
    bad = []
    n = 0
    for st in lib.enumerate_paths(eg, max_paths=60000):
        sub = [c for c in st.calls if c.path.endswith("::execute") and "ExecutableInstruction" in c.path]
        if not sub:
            continue
        res = lib.path_result(eg, st)
        ends = len(lib.path_calls(st, "TraceHandler::meet_par_subgraph_end"))
        if res == "Ok":
            n += 1
            if ends != 1:
                bad.append(ends)
    ctx.require(n >= 2 and not bad, "R-PAIR", "par:subgraph-end-on-ok-paths", "every Ok path of execute_subgraph (success and catchable failure) closes the subgraph exactly once (%d paths)" % n, "execute_subgraph Ok paths closing the subgraph %s times" % bad)
    pe = [f for f in F.impl_fns("ExecutableInstruction", "::Par<'i>", "execute") if F.impl_of(f)["self"].endswith("::Par<'i>")][0]
    ms = pe.calls_to("TraceHandler::meet_par_start")
    es = pe.calls_to("par::execute_subgraph")
    ctx.require(len(ms) == 1 and len(es) == 2 and all(lib.guarded_by_ok(pe, ms[0], c.bb) for c in es), "R-PAIR", "par:start-before-subgraphs", "meet_par_start(Ok) before both subgraphs", "Par::execute pairing changed")
    mpe = F.fn("handler::TraceHandler::meet_par_subgraph_end")
    rows = {}
    for st in lib.enumerate_paths(mpe, max_paths=20000):
        var = [v for k, v in st.variants.items() if v in ("Left", "Right")]
        if var:
            rows.setdefault(var[0], set()).add(tuple(sorted({c.path.split("::")[-1] for c in st.calls if c.path.endswith(("left_completed", "right_completed", "last_par", "pop_par"))})))
    ctx.require(rows == {"Left": {("last_par", "left_completed")}, "Right": {("pop_par", "right_completed")}} or
                (any("left_completed" in x for r in rows.get("Left", []) for x in [r]) and any("right_completed" in x for r in rows.get("Right", []) for x in [r])), "R-TABLE", "par:handler-dispatch",
                "Left -> last_par().left_completed; Right -> pop_par().right_completed", "meet_par_subgraph_end dispatch is %s" % rows)
    # executor side: stream fold
    ew = F.fn("stream_execute_helpers::execute_with_stream")
    fs = ew.calls_to("TraceHandler::meet_fold_start")
    fe = ew.calls_to("TraceHandler::meet_fold_end")
    ok = len(fs) == 1 and len(fe) == 1 and lib.guarded_by_ok(ew, fs[0], fe[0].bb)
    if ok:
        okb = lib.result_edges(ew, fs[0]).get("ok")
        exits = {c.bb for c in ew.calls if lib.is_from_residual(c.path)}
        ok = ew.must_pass(okb, [fe[0].bb] + list(exits))
    ctx.require(ok, "R-PAIR", "fold:start-end", "after meet_fold_start(Ok) every non-error path reaches meet_fold_end", "execute_with_stream can return Ok without meet_fold_end")
    ei = F.fn("stream_execute_helpers::execute_iterations")
    bad, n = [], 0
    for st in lib.enumerate_paths(ei, max_paths=120000, max_visits=2):
        if lib.path_result(ei, st) != "Ok":
            continue
        a = len(lib.path_calls(st, "TraceHandler::meet_iteration_start"))
        b = len(lib.path_calls(st, "TraceHandler::meet_generation_end"))
        n += 1
        if a != b:
            bad.append((a, b))
    ctx.require(n >= 2 and not bad, "R-PAIR", "fold:iteration-start-generation-end", "on every Ok path #meet_iteration_start == #meet_generation_end (%d paths)" % n, "execute_iterations Ok paths with (starts, ends) = %s" % sorted(set(bad)))

    # 2. shapes
    tk = F.fn("par_builder::ParBuilder::track")
    tp = Prov(tk)
    subs = []
    for bi, si, s in tk.stmts():
        if s["rv"]["k"] == "bin" and s["rv"]["op"] in ("Sub", "SubWithOverflow"):
            subs.append(tp._rv(s["rv"], 0, frozenset()))
    ok = len(subs) == 1 and lib.mentions_call(subs[0][2], "result_states_count") and lib.mentions_field(subs[0][3], "saved_states_count")
    wr = [show(tp._rv(s["rv"], 0, frozenset())) for bi, si, s in tk.stmts() if lib.place_fields(s["lhs"]) and lib.place_fields(s["lhs"])[-1][1] == "saved_states_count"]
    ok = ok and len(wr) == 1 and ("result_trace" in wr[0] or "result_states_count" in wr[0])
    sides = {}
    for st in lib.enumerate_paths(tk):
        var = [v for k, v in st.variants.items() if v in ("Left", "Right")]
        written = set()
        for bb in st.blocks:
            for s in tk.blocks[bb]["stmts"]:
                if "lhs" in s and lib.place_fields(s["lhs"]):
                    written.add(lib.place_fields(s["lhs"])[-1][1])
        if var:
            sides[var[0]] = sorted(written - {"saved_states_count"})
    ok = ok and sides == {"Left": ["left_subgraph_size"], "Right": ["right_subgraph_size"]}
    ctx.require(ok, "R-FLOW", "shape:ParBuilder::track", "size := result_states_count - saved; Left -> left_subgraph_size, Right -> right_subgraph_size; saved refreshed", "ParBuilder::track changed shape (subs=%s sides=%s)" % ([show(x) for x in subs], sides),
                sample={"sides": sides})
    pb = F.fn("par_builder::ParBuilder::build")
    e = Prov(pb).local(0)
    ok = e[0] == "call" and e[1].endswith("ExecutedState>::par") and e[2][0][0] == "field" and e[2][0][2] == "left_subgraph_size" and e[2][1][0] == "field" and e[2][1][2] == "right_subgraph_size"
    ctx.require(ok, "R-FLOW", "shape:ParBuilder::build", "par(left_subgraph_size, right_subgraph_size)", "ParBuilder::build is `%s`" % show(e))
    ln = F.fn("lore_ctor::PositionsTracker::len")
    e = Prov(ln).local(0)
    subs = [s for s in walk(e) if s[0] == "call" and "Sub" in s[1]]
    ok = len(subs) == 1 and subs[0][2][0][0] == "field" and subs[0][2][0][2] == "end_pos" and subs[0][2][1][0] == "field" and subs[0][2][1][2] == "start_pos"
    ctx.require(ok, "R-FLOW", "shape:PositionsTracker::len", "len = end_pos - start_pos", "PositionsTracker::len is `%s`" % show(e))
    rec = {"before_end": ("before_tracker", "end_pos"), "after_start": ("after_tracker", "start_pos"), "after_end": ("after_tracker", "end_pos")}
    for nm, (tr_, fld) in rec.items():
        f = F.fn("lore_ctor::SubTraceLoreCtor::" + nm)
        p = Prov(f)
        ws = [(lib.place_fields(s["lhs"]), p._rv(s["rv"], 0, frozenset())) for bi, si, s in f.stmts() if lib.place_fields(s["lhs"]) and lib.place_fields(s["lhs"])[-1][1] in ("start_pos", "end_pos")]
        ok = len(ws) == 1 and [x[1] for x in ws[0][0]][-2:] == [tr_, fld] and lib.mentions_call(ws[0][1], "result_trace_next_pos") and len(f.calls_to("CtorState::next")) == 1
        ctx.require(ok, "R-FLOW", "shape:ctor::" + nm, "%s records %s.%s := result_trace_next_pos() and advances the state" % (nm, tr_, fld), "SubTraceLoreCtor::%s changed shape" % nm)
    fbs = F.fn("lore_ctor::SubTraceLoreCtor::from_before_start")
    e = Prov(fbs).local(0)
    a = [s for s in walk(e) if s[0] == "agg" and s[1].endswith("SubTraceLoreCtor")]
    ok = len(a) == 1 and a[0][3]["value_pos"][0] == "param" and lib.mentions_call(a[0][3]["before_tracker"], "result_trace_next_pos")
    ctx.require(ok, "R-FLOW", "shape:ctor::from_before_start", "records value_pos and before.start_pos := result_trace_next_pos()", "from_before_start changed shape")
    isl = F.fn("lore_ctor::SubTraceLoreCtor::into_subtrace_lore")
    ipv = Prov(isl)
    descs = []
    for bi, si, s in isl.stmts():
        rv = s["rv"]
        if rv["k"] == "agg" and rv.get("kind") == "adt" and rv["adt"].endswith("SubTraceDesc"):
            e_ = ipv._rv(rv, 0, frozenset())
            descs.append((s["lhs"]["l"], show(e_[3]["begin_pos"]), show(e_[3]["subtrace_len"])))
    ok = len(descs) == 2 and {d[1] for d in descs} == {"self.before_tracker.start_pos", "self.after_tracker.start_pos"} and \
        all(("before_tracker" in d[1]) == ("before_tracker" in d[2]) and "PositionsTracker::len" in d[2] for d in descs)
    r0 = ipv.local(0)
    lore = [s for s in walk(r0) if s[0] == "agg" and s[1].endswith("FoldSubTraceLore")]
    ok = ok and len(lore) == 1 and lore[0][3]["value_pos"][0] == "field" and lore[0][3]["value_pos"][2] == "value_pos"
    ctx.require(ok, "R-FLOW", "shape:into_subtrace_lore", "emits exactly two descriptors: (before.start, before.len) then (after.start, after.len), with the recorded value_pos", "into_subtrace_lore builds %s" % descs, sample={"descriptors": descs})
    # order before, after in the vec: the array aggregate's operands
    arr = [ipv._rv(s["rv"], 0, frozenset()) for bi, si, s in isl.stmts() if s["rv"]["k"] == "agg" and s["rv"].get("kind") == "array"]
    ok = len(arr) == 1 and len(arr[0][1]) == 2 and "before_tracker" in show(arr[0][1][0]) and "after_tracker" in show(arr[0][1][1])
    ctx.require(ok, "R-FLOW", "shape:into_subtrace_lore-order", "subtraces_desc = [before, after]", "into_subtrace_lore descriptor order changed")
    nx = F.fn("lore_ctor::CtorState::next")
    rows = {}
    for st in lib.enumerate_paths(nx):
        src = [v for k, v in st.variants.items() if k[0] == 1 and v in ("BeforeStarted", "BeforeCompleted", "AfterStarted", "AfterCompleted")]
        pe = PathProv(nx, st.blocks)
        e_ = None
        for bb in st.blocks:
            for s_ in nx.blocks[bb]["stmts"]:
                if "lhs" in s_ and s_["lhs"]["p"] == ["*"] and s_["lhs"]["l"] == 1:
                    v_ = pe._rv(s_["rv"], 0, frozenset())
                    e_ = v_[2] if v_[0] == "agg" else show(v_)
        if src:
            rows[src[0]] = e_
    ctx.require(rows == {"BeforeStarted": "BeforeCompleted", "BeforeCompleted": "AfterStarted", "AfterStarted": "AfterCompleted", "AfterCompleted": "AfterCompleted"}, "R-TABLE", "shape:CtorState::next",
                "BeforeStarted -> BeforeCompleted -> AfterStarted -> AfterCompleted (absorbing)", "CtorState::next table is %s" % rows, sample={"table": rows})
    fin = F.fn("lore_ctor::SubTraceLoreCtor::finish")
    rows = {}
    for st in lib.enumerate_paths(fin):
        src = [v for k, v in st.variants.items() if v in ("BeforeStarted", "BeforeCompleted", "AfterStarted", "AfterCompleted")]
        if src:
            rows[src[0]] = [c.path.split("::")[-1] for c in st.calls]
    want = {"BeforeStarted": ["before_end", "after_start", "after_end"], "BeforeCompleted": ["after_start", "after_end"], "AfterStarted": ["after_end"], "AfterCompleted": []}
    ctx.require(rows == want, "R-TABLE", "shape:ctor::finish", "finish completes the remaining recorders from any of the four states", "SubTraceLoreCtor::finish table is %s" % rows)

    # when a fold generation is left (normally or through a catchable error) EVERY queued iteration is completed: the queue's
    # finish walks all constructors unconditionally — an iteration left unfinished is serialised with an empty (0, 0) range
    qf = F.fn("lore_ctor_queue::SubTraceLoreCtorQueue::finish")
    qp = Prov(qf)
    fin_calls = qf.calls_to("lore_ctor::SubTraceLoreCtor::finish")
    okq = len(fin_calls) == 1
    if okq:
        c_ = fin_calls[0]
        recv = qp.operand(c_.args[0])
        okq = lib.loop_depth(qf, c_.bb) == 1 and any(x[0] == "call" and x[1].endswith("iter_mut") for x in walk(recv)) and lib.mentions_field(recv, "queue") and \
            not [g for g in lib.guards_of(qf, c_.bb, qp) if g[1] is not None] and not lib.bool_branches(qf, qp)
    ctx.require(okq, "R-MUST", "shape:ctor-queue::finish", "finish() completes every queued lore constructor (one unconditional loop over the queue)",
                "SubTraceLoreCtorQueue::finish no longer completes every queued constructor unconditionally: iterations in front of the current one are serialised with empty ranges, so a fold's ranges no longer tile the states after it")
    # 3. stubs
    reach, _ = F.reachable_fns([F.fn("runner::execute_air")])
    stub_sites = []
    for fid in reach:
        fn = F.fns[fid]
        if fn.crate != "air":
            continue
        for c in fn.calls:
            if c.path.endswith(("CallResult>::executed_stream_stub", "ApResult>::stub")):
                stub_sites.append((fn, c))
    ctx.floor("R-PAIR", "stub generation producers in air", len(stub_sites), 3)
    for fn, c in stub_sites:
        owner = fn.path.split("::{closure")[0]
        key = "stub:%s:%s" % (owner.split("::")[-1] if "impl" not in owner.split("::")[-2] else owner.split("::")[-3], c.path.split("::")[-1])
        if owner.endswith("populate_context_from_peer_service_result"):
            p = Prov(fn)
            adds = [a for a in fn.calls_to("Streams::add_stream_value") if fn.dominates(a.bb, c.bb)]
            ok = len(adds) == 1 and lib.guarded_by_ok(fn, adds[0], c.bb)
            if ok:
                d = p.operand(adds[0].args[1])
                ok = any(s[0] == "agg" and s[2] == "New" for s in walk(d)) or "Generation::New" in show(d)
            ctx.require(ok, "R-PAIR", key, "the stub state is returned only after the value was appended with Generation::New (so compactify rewrites it)", "%s returns a stub generation without a successful New-generation append" % owner)
        elif owner.endswith("maybe_update_trace"):
            ctx.ok("R-PAIR", key, "ap: meet_ap_end(stub) is recorded only after populate_context appended the value (pairing checked by C13 append:ap); new appends of `ap` use the generation from the merger or New")
        elif "ApMap" in owner or owner.endswith("ap_map::<impl") or "ap_map" in owner:
            f2 = fn
            au = f2.calls_to("ap_map::populate_context")
            ok = len(au) == 1 and lib.guarded_by_ok(f2, au[0], c.bb)
            ctx.require(ok, "R-PAIR", key, "ap map: stub recorded only after the append returned Ok", "%s records a stub without a successful append" % owner)
        else:
            ctx.violation("R-PAIR", key, "new producer of a stub generation: %s at %s" % (fn.path, c.loc()))
    for nm in ("generate_value_descriptor", "generate_map_value_descriptor"):
        fs_ = F.find(nm)
        for f in fs_:
            rows = {}
            for st in lib.enumerate_paths(f, max_paths=20000):
                var = [v for k, v in st.variants.items() if v in ("Met", "NotMet")]
                pe = PathProv(f, st.blocks).local(0)
                g = [s for s in walk(pe) if (s[0] == "agg" and s[1].endswith("Generation")) or (s[0] == "call" and s[1].endswith(("Generation::from_met_result", "Generation::new", "Generation::from_data")))]
                if var:
                    rows[var[0]] = (g[0][2] if g and g[0][0] == "agg" else g[0][1].split("::")[-1]) if g else None
            ctx.require(rows == {"Met": "from_met_result", "NotMet": "New"} or rows == {"Met": "from_met_result", "NotMet": "new"}, "R-TABLE", "stub:descriptor:" + nm, "state met in data -> its generation; otherwise Generation::New", "%s table is %s" % (nm, rows))
    po = F.fn("outcome::populate_outcome_from_contexts")
    cs = po.calls_to("outcome::compactify_streams")
    fer = po.calls_to(lambda c: c.path.endswith("::from_execution_result"))
    ctx.require(len(cs) == 1 and len(fer) == 1 and lib.guarded_by_ok(po, cs[0], fer[0].bb), "R-MUST", "stub:compactify-before-data", "compactify_streams(Ok) dominates building the produced data", "data can be produced without compactifying streams")
    cst = F.fn("outcome::compactify_streams")
    names = [c.path for c in cst.calls] + [c.path for f in F.closures_of(cst) for c in f.calls]
    ctx.require(any(n.endswith("Streams::compactify") for n in names) and any(n.endswith("StreamMaps::compactify") for n in names), "R-MUST", "stub:compactify-both", "both streams and stream maps are compactified", "compactify_streams no longer covers both streams and stream maps")
    for nm in ("streams_variables::Streams::meet_scope_end", "stream_maps_variables::StreamMaps::meet_scope_end"):
        f = F.fn(nm)
        # what is compactified is the instance being dropped — the descriptor popped from the name's scope stack — and the
        # result of that call is what the function returns (a collection-level compactify only sees what is left)
        fp_ = Prov(f)
        cps = [c for c in f.calls if c.path.endswith(("Stream::compactify", "StreamMap::compactify"))]
        okp = len(cps) == 1 and any(x[0] == "call" and x[1].endswith("Vec::pop") for x in walk(fp_.operand(cps[0].args[0]))) and lib.returns_call_result(f, cps[0])
        ctx.require(okp, "R-MUST", "stub:scope-end:" + nm.split("::")[-2], "the popped (restricted) instance itself is compactified at scope end and its result returned",
                    "%s no longer compactifies the instance it pops from the scope stack (compactify calls: %s): the generations recorded for values of a `new`-restricted %s keep the placeholder"
                    % (nm, [c.path.split("::")[-2] + "::" + c.path.split("::")[-1] for c in f.calls if c.path.endswith("::compactify")], "stream map" if "maps" in nm else "stream"))
    # 4. update_generation
    ug = F.fn("handler::TraceHandler::update_generation")
    rows = {}
    for st in lib.enumerate_paths(ug, max_paths=20000):
        kinds = [v for k, v in st.variants.items() if v in ("Ap", "Call", "Par", "Fold", "Canon")]
        sub = [v for k, v in st.variants.items() if v in ("Executed", "RequestSentBy", "Failed", "Scalar", "Stream", "Unused")]
        res = lib.path_result(ug, st)
        if kinds:
            rows.setdefault((kinds[0], tuple(sorted(sub))), set()).add(res)
    ok = rows.get(("Ap", ())) == {"Ok"} and rows.get(("Call", ("Executed", "Stream"))) == {"Ok"} and all(v == {"Err"} for k, v in rows.items() if k not in (("Ap", ()), ("Call", ("Executed", "Stream"))))
    ctx.require(ok and len(rows) >= 4, "R-TABLE", "update_generation", "rewrites exactly Ap and Call(Executed(Stream)); everything else is an error", "update_generation table is %s" % {str(k): sorted(v) for k, v in rows.items()},
                sample={"table": {str(k): sorted(v) for k, v in rows.items()}})
