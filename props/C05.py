"""C05 — each service call runs exactly once and its result is never lost (DESIGN §4/C05)."""
from rules import lib
from rules.lib import Prov, show, walk
from props import common, mergetab

LEVEL = ("Mechanism level: the single call-request insertion site and its two guards (state says execute; call is "
         "addressed to this peer), the pending mark persisted in the same run with the same id, the decision table of "
         "handle_prev_state (an own pending request is never re-issued, a met state is never dropped), the single "
         "consumer of call_results followed by exactly one recorded state, and the merge table preferring a result over "
         "a pending request. Necessary conditions of the property; multi-run histories are not decided."
         " Added: merge(RequestSentBy, RequestSentBy) keeps the previous (own) pending mark; a call that ends without a result marks the subgraph incomplete.")


def check(ctx):
    F = ctx.facts("prod")
    ctx.clause("R-WRITERS/R-GUARD/R-PAIR call request issued at one site, under should_execute && peer == current, pending mark persisted")
    ctx.clause("R-TABLE handle_prev_state decision table; StateDescriptor constructors; !should_execute re-emits the met state")
    ctx.clause("R-TABLE a call that ends without a result marks the subgraph incomplete (not_ready, cant_execute_now, issued, forwarded)")
    ctx.clause("R-WRITERS/R-PAIR call_results consumed only by remove(call_id) in handle_prev_state; exactly one meet_call_end follows")
    ctx.clause("R-TABLE call merge prefers Executed/Failed over RequestSentBy and keeps the previous (own) pending mark on RequestSentBy/RequestSentBy")

    site = common.call_request_site(ctx, F)

    # --- StateDescriptor constructors
    want_exec = {"executed": ("0", "None"), "not_ready": ("0", "Some"), "can_execute_now": ("1", "Some"),
                 "cant_execute_now": ("0", "Some"), "no_previous_state": ("1", "None")}
    for name, (se, ps) in want_exec.items():
        f = F.fn("prev_result_handler::StateDescriptor::" + name)
        e = Prov(f).local(0)
        ok = e[0] == "agg" and e[1].endswith("StateDescriptor")
        if ok:
            v = e[3].get("should_execute")
            pst = e[3].get("prev_state")
            ok = v is not None and v[0] == "const" and v[2] == se and pst is not None and pst[0] == "agg" and pst[2] == ps
            if ok and ps == "Some":
                ok = pst[3]["0"][0] == "param"
        ctx.require(ok, "R-TABLE", "descriptor:" + name, "%s => should_execute=%s prev_state=%s" % (name, se, ps),
                    "StateDescriptor::%s builds `%s`, expected should_execute=%s prev_state=%s(arg)" % (name, show(e), se, ps))
    f = F.fn("prev_result_handler::StateDescriptor::should_execute")
    e = Prov(f).local(0)
    ctx.require(e[0] == "field" and e[2] == "should_execute" and e[1][0] == "param", "R-TABLE", "descriptor:getter",
                "should_execute() reads the field", "StateDescriptor::should_execute returns `%s`" % show(e))
    ms = F.fn("prev_result_handler::StateDescriptor::maybe_set_prev_state")
    tbl = {}
    for st in lib.enumerate_paths(ms):
        var = [v for k, v in st.variants.items() if v in ("Some", "None")]
        tbl[var[0] if var else None] = [c.path.split("::")[-1] for c in st.calls if c.path.endswith("meet_call_end")]
    ctx.require(tbl.get("Some") == ["meet_call_end"] and tbl.get("None") == [], "R-TABLE", "descriptor:maybe_set_prev_state",
                "Some(state) -> meet_call_end(state); None -> nothing", "maybe_set_prev_state table is %s" % tbl)
    if ms.calls_to("meet_call_end"):
        a = Prov(ms).operand(ms.calls_to("meet_call_end")[0].args[1])
        ctx.require(lib.mentions_field(a, "prev_state"), "R-FLOW", "descriptor:maybe_set_prev_state-arg", "re-emits self.prev_state",
                    "maybe_set_prev_state records `%s`" % show(a))

    # --- in ResolvedCall::execute the !should_execute edge calls maybe_set_prev_state and returns
    if site:
        ex, p = site["fn"], site["prov"]
        for br in lib.bool_branches(ex, p):
            if br.expr[0] == "call" and br.expr[1].endswith("StateDescriptor::should_execute"):
                neg = br.false_bb if br.pos else br.true_bb
                ms_calls = [c for c in ex.calls_to("StateDescriptor::maybe_set_prev_state") if c.bb in ex.reach_from(neg)]
                ok = bool(ms_calls) and ex.must_pass(neg, [c.bb for c in ms_calls])
                ctx.require(ok, "R-PAIR", "request:not-executed-reemits", "!should_execute => maybe_set_prev_state on every path",
                            "when the state says not to execute, ResolvedCall::execute can return without re-emitting the met state")
                ctx.require(site["insert"].bb not in ex.reach_from(neg), "R-GUARD", "request:not-executed-no-insert",
                            "no request on the !should_execute edge", "a call request can be issued on the !should_execute edge")
        # prepare_current_executed_state: Met -> handle_prev_state, NotMet -> no_previous_state
        pc = F.fn("resolved_call::ResolvedCall::prepare_current_executed_state")
        t = {}
        for st in lib.enumerate_paths(pc, max_paths=20000):
            var = [v for v in st.variants.values() if v in ("Met", "NotMet")]
            if not var:
                continue
            names = tuple(sorted({c.path.split("::")[-1] for c in st.calls if c.path.endswith(("handle_prev_state", "no_previous_state"))}))
            t.setdefault(var[0], set()).add(names)
        ctx.require(t == {"Met": {("handle_prev_state",)}, "NotMet": {("no_previous_state",)}}, "R-TABLE", "request:met-dispatch",
                    "Met -> handle_prev_state, NotMet -> no_previous_state", "prepare_current_executed_state dispatch is %s" % t)

    # --- handle_prev_state table
    h = F.fn("prev_result_handler::handle_prev_state")
    hp = Prov(h)
    paths = lib.enumerate_paths(h, hp, max_paths=60000)
    rows = {}
    for st in paths:
        res = lib.path_result(h, st)
        top = None
        sender = None
        for k, v in st.variants.items():
            if v in ("Failed", "RequestSentBy", "Executed") and k[0] == 1:
                top = v
            if v in ("PeerId", "PeerIdWithCallId"):
                sender = v
        peer_eq = None
        removed = None
        for br, val in st.conds:
            if isinstance(br, str):
                continue
            rel = br.holds_on(br.true_bb if val else br.false_bb)
            if rel and rel[0] in ("==", "!=") and (common.is_current_peer(rel[1]) or common.is_current_peer(rel[2])):
                peer_eq = (rel[0] == "==", "own-sender" if (lib.mentions_param(rel[1], "met_result") or lib.mentions_param(rel[2], "met_result")) else "tetraplet")
        rm = lib.path_calls(st, "HashMap::remove")
        if rm:
            for k, v in st.variants.items():
                if k[0] == rm[0].dest["l"] and v in ("Some", "None"):
                    removed = v
        ctors = tuple(c.path.split("::")[-1] for c in st.calls if "StateDescriptor::" in c.path)
        ends = len(lib.path_calls(st, "TraceHandler::meet_call_end"))
        if res == "Ok":
            rows.setdefault((top, sender, peer_eq, removed), set()).add((ctors, ends))
        elif res == "Err" and top == "Failed" and lib.path_calls(st, "record_call_cid"):
            rows.setdefault((top, None, None, None), set()).add((("Err(LocalServiceError)",), ends))
    ctx.floor("R-TABLE", "paths of handle_prev_state", len(paths), 8)
    # interpret
    got = {}
    for (top, sender, peer_eq, removed), outs in rows.items():
        got[(top, sender, peer_eq, removed)] = outs
    def outs_for(pred):
        r = set()
        for k, v in got.items():
            if pred(k):
                r |= v
        return r
    exp = [
        ("Failed", lambda k: k[0] == "Failed", {(("Err(LocalServiceError)",), 1)},
         "Failed -> state re-emitted once, Err returned"),
        ("own-request+result", lambda k: k[0] == "RequestSentBy" and k[2] == (True, "own-sender") and k[3] == "Some", {(("executed",), 0)},
         "own pending request with a result -> update_state_with_service_result, executed"),
        ("own-request-no-result", lambda k: k[0] == "RequestSentBy" and k[2] == (True, "own-sender") and k[3] == "None", {(("not_ready",), 0)},
         "own pending request without result -> not_ready (never re-issued)"),
        ("foreign-request-for-me", lambda k: k[0] == "RequestSentBy" and k[2] == (True, "tetraplet"), {(("can_execute_now",), 0)},
         "request sent by someone else, call addressed here -> can_execute_now"),
        ("foreign-request-not-for-me", lambda k: k[0] == "RequestSentBy" and k[2] == (False, "tetraplet"), {(("cant_execute_now",), 0)},
         "request sent by someone else, not addressed here -> cant_execute_now"),
        ("Executed", lambda k: k[0] == "Executed", {(("executed",), 1)}, "Executed -> value restored, state re-emitted once, executed"),
    ]
    for name, pred, want, text in exp:
        o = outs_for(pred)
        ctx.require(o == want, "R-TABLE", "handle_prev_state:" + name, text,
                    "handle_prev_state row %s is %s, expected %s (%s)" % (name, sorted(o), sorted(want), text),
                    sample={"row": name, "outcomes": [list(map(str, x)) for x in o]})
    # the own-request guard compares the *stored sender's* peer id, and the key removed is that state's call_id
    rm = h.calls_to("HashMap::remove")
    if ctx.require(len(rm) == 1, "R-WRITERS", "results:single-consumer-site", "one call_results.remove site in handle_prev_state",
                   "handle_prev_state has %d remove sites" % len(rm)):
        r = rm[0]
        recv = hp.operand(r.args[0])
        key = hp.operand(r.args[1])
        ctx.require(lib.mentions_field(recv, "call_results") and lib.mentions_param(recv, "exec_ctx"), "R-FLOW", "results:consumer-recv",
                    "removes from exec_ctx.call_results", "remove is applied to `%s`" % show(recv))
        ctx.require(any(s[0] == "call" and s[1].endswith("to_string") for s in walk(key)) and lib.mentions_field(key, "call_id")
                    and lib.mentions_param(key, "met_result"), "R-FLOW", "results:key-from-state",
                    "lookup key := met_result.result's own call_id.to_string()", "call_results.remove is keyed by `%s`" % show(key), sample={"key": show(key)})
        g = common.eq_guard(h, hp, r.bb, lambda e: lib.mentions_field(e, "peer_id") and lib.mentions_param(e, "met_result"), common.is_current_peer)
        ctx.require(g is not None, "R-GUARD", "results:own-request-only", "result consumed only where %s" % g,
                    "call_results.remove is not guarded by (stored sender peer_id == current_peer_id)")
    # who else touches call_results
    reach, _ = F.reachable_fns([F.fn("runner::execute_air")])
    muts = common.field_mutators(F, "ExecutionCtx", "call_results", reach)
    allowed = {"prev_result_handler::handle_prev_state", "ExecutionCtx::new"}
    for o, kinds in sorted(muts.items()):
        ctx.require(o in allowed, "R-WRITERS", "results:mutator:" + o, "%s %s" % (o, sorted(kinds)),
                    "ExecutionCtx.call_results is modified (%s) in %s: a result could be consumed or dropped outside handle_prev_state" % (sorted(kinds), o))
    common.result_recorded_once(ctx, F)
    # --- merge table
    mergetab.call_merge_prefers_result(ctx, F)
    mergetab.call_merge_keeps_pending_mark(ctx, F)
    common.pending_call_blocks_sequence(ctx, F)
