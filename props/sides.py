"""R-SIDES — previous/current side discipline (shared by the merge properties C07, C08, C09, C12, C13 and by C06).

The interpreter keeps two of everything: the peer's own PREVIOUS data and the incoming CURRENT data (traces, sliders,
fold lores, par descriptors, CID maps, stream generations, position maps, context ingredients).  The repository names
them consistently (`prev_*` / `previous_*` vs `current_*`, `Previous*` vs `Current*` variants).  A value taken from one
side that ends up in a sink named for the OTHER side is how "which operand did I mean" slips look in this code base
(`new_to_current_pos.insert(new_pos, <position of the PREV slider>)`).

Rule: for every *side-named sink* — (a) a parameter of a workspace function whose (audited) name carries a side,
(b) a struct field written or initialised whose name carries a side, (c) the `&mut` receiver of a method call whose
provenance carries exactly one side, (d) the return value of a function whose own name carries a side — the value
flowing in must not carry ONLY the opposite side.  Values that mention both sides or none are not judged.  The crossings
present in today's tree are listed with reasons (exact keys); a new one is a violation.  Nothing is executed: provenance
is the def-use closure over MIR (rules/lib.py: Prov), sides are read from names in that provenance."""
import re

from rules import lib
from rules.lib import Prov, show, walk

CRATES = ("air_trace_handler", "air", "air_interpreter_data")
NEUTRAL_SUBSTR = ("current_peer",)          # `current_peer_id` is "this peer", not the current-data side
NEUTRAL_EXACT = ("current",)                # `ctor_queue.current()`: the current iteration
CMP = ("eq", "ne", "lt", "le", "gt", "ge", "cmp", "partial_cmp")

# crossings audited on today's tree: key -> reason
BASELINE = {
    "air_interpreter_data::cid_store::CidTracker::from_cid_stores|recv-mut|insert|P<-C":
        "union of the two CID maps: entries of current_cid_map are inserted into the map that started as prev_cid_map (C09 clause cid-union)",
    "air::execution_step::instructions::call::resolved_call::ResolvedCall::prepare_current_executed_state|fn-return|C<-P":
        "`current` here means `the state of the call instruction being executed now`; it is computed from the met (previous) state by handle_prev_state / no_previous_state",
}


def side_of_name(n):
    if not n:
        return None
    if n in NEUTRAL_EXACT or any(x in n for x in NEUTRAL_SUBSTR):
        return None
    toks = re.split(r"[^a-z]+", re.sub(r"([a-z0-9])([A-Z])", r"\1_\2", n).lower())
    p = any(t in ("prev", "previous") for t in toks)
    c = any(t in ("current", "cur") for t in toks)
    if p and not c:
        return "P"
    if c and not p:
        return "C"
    return None


def tags(e):
    out = set()
    for s in walk(e):
        n = None
        if s[0] in ("param", "upvar"):
            n = s[1]
        elif s[0] == "field":
            n = s[2]
        elif s[0] == "call":
            n = s[1].split("::")[-1]
        elif s[0] in ("agg", "as"):
            n = s[2]
        sd = side_of_name(n)
        if sd:
            out.add((sd, n))
    return out


def _only(t):
    s = {a for a, _ in t}
    return next(iter(s)) if len(s) == 1 else None


def crossings(F, crates=CRATES):
    """Yield (key, description, loc) for every side crossing; also returns the number of side-named sinks examined."""
    out = []
    examined = 0
    for fn in F.fns.values():
        if fn.crate not in crates or any("derive" in x for x in fn.ex):
            continue
        p = None
        owner = fn.path
        fside = side_of_name(fn.path.split("::{closure")[0].split("::")[-1]) if fn.kind != "Closure" else None
        for c in fn.calls:
            if lib.is_logging_expansion(c.ex):
                continue
            callee = F.fns.get(c.cid)
            cname = c.path.split("::")[-1]
            pnames = [callee.names.get(i + 1) for i in range(len(c.args))] if callee is not None else [None] * len(c.args)
            psides = [side_of_name(n) for n in pnames]
            recv_mut = bool(c.atys) and c.atys[0].startswith("&mut") and cname not in CMP and (
                (callee is not None and pnames and pnames[0] == "self") or
                (callee is None and re.search(r"(^|::|<)[A-Z][A-Za-z0-9]*(<.*>)?(>)?::[a-z_0-9]+$", c.path) is not None))
            if not (any(psides) or recv_mut):
                continue
            p = p or Prov(fn)
            at = [tags(p.operand(a)) for a in c.args]
            for i, (ps, t) in enumerate(zip(psides, at)):
                if ps:
                    examined += 1
                    o = _only(t)
                    if o and o != ps:
                        out.append(("%s|arg-param|%s.%s|%s<-%s" % (owner, cname, pnames[i], ps, o),
                                    "argument `%s` of %s receives a value derived only from the %s side (%s)" % (pnames[i], cname, _nm(o), sorted(n for _, n in t)), c.loc()))
            if recv_mut and at:
                r = _only(at[0])
                if r:
                    for i, t in enumerate(at[1:], 1):
                        if psides[i]:
                            continue
                        examined += 1
                        o = _only(t)
                        if o and o != r:
                            out.append(("%s|recv-mut|%s|%s<-%s" % (owner, cname, r, o),
                                        "%s on a %s-side object (%s) is given a value derived only from the %s side (%s)"
                                        % (cname, _nm(r), sorted(n for _, n in at[0]), _nm(o), sorted(n for _, n in t)), c.loc()))
        for bi, si, s in fn.stmts():
            fs = lib.place_fields(s["lhs"])
            rv = s["rv"]
            if fs:
                ls = side_of_name(fs[-1][1])
                if ls:
                    p = p or Prov(fn)
                    examined += 1
                    o = _only(tags(p._rv(rv, 0, frozenset())))
                    if o and o != ls:
                        out.append(("%s|field-write|%s|%s<-%s" % (owner, fs[-1][1], ls, o),
                                    "field `%s` is assigned a value derived only from the %s side" % (fs[-1][1], _nm(o)), fn.blocks[bi]["ln"] if "ln" in fn.blocks[bi] else ""))
            if rv["k"] == "agg" and rv.get("kind") == "adt":
                for fname, op in zip(rv["fields"], rv["ops"]):
                    ls = side_of_name(fname)
                    if ls:
                        p = p or Prov(fn)
                        examined += 1
                        o = _only(tags(p.operand(op)))
                        if o and o != ls:
                            out.append(("%s|agg-field|%s.%s|%s<-%s" % (owner, rv["adt"].split("::")[-1], fname, ls, o),
                                        "%s.%s is initialised with a value derived only from the %s side" % (rv["adt"].split("::")[-1], fname, _nm(o)), ""))
        if fside:
            p = p or Prov(fn)
            examined += 1
            o = _only(tags(p.local(0)))
            if o and o != fside:
                out.append(("%s|fn-return|%s<-%s" % (owner, fside, o), "function named for the %s side returns a value derived only from the %s side" % (_nm(fside), _nm(o)), fn.loc()))
    return out, examined


def _nm(s):
    return "previous" if s == "P" else "current"


_CACHE = {}


def check_sides(ctx, F, floor=150):
    from props import controls
    controls.require(ctx, "sides")
    ctx.clause("R-SIDES previous/current discipline: no value derived only from one side flows into a parameter, field, "
               "`&mut` receiver or function result named for the other side (audited crossings listed by exact key)")
    if id(F) not in _CACHE:
        _CACHE[id(F)] = crossings(F)
    cr, examined = _CACHE[id(F)]
    ctx.floor("R-SIDES", "side-named sinks examined", examined, floor)
    ctx.examined(examined)
    seen = set()
    for key, desc, loc in cr:
        if key in seen:
            continue
        seen.add(key)
        if key in BASELINE:
            ctx.ok("R-SIDES", "audited:" + key, BASELINE[key])
        else:
            ctx.violation("R-SIDES", "crossing:" + key, "previous/current mix-up in %s: %s (at %s)" % (key.split("|")[0], desc, loc), {"loc": loc})
    ctx.ok("R-SIDES", "sinks", "%d side-named sinks examined, %d crossings, all audited" % (examined, len(seen)), sample={"sinks_examined": examined, "crossings": sorted(seen)})
