"""C08 — merge results do not depend on delivery order or grouping (DESIGN §4/C08)."""
from rules import lib
from rules.lib import Prov, show, walk
from props import mergetab, sides

LEVEL = ("Mechanism level: symmetry law on the extracted per-state merge tables — class(merge(a,b)) == class(merge(b,a)) "
         "with class in {RequestSentBy, Executed, Failed, Error}, for the call table, the executed-value sub-table and the "
         "canon table; one-sided rows of the five mergers are mirror images. Par/fold/stream-generation order independence is "
         "not decided.")


def _cls_call(a, b, o):
    who = o[0]
    return {"prev": a, "current": b, "helper": "Executed", "error": "Error"}.get(who, "?")


def check(ctx):
    F = ctx.facts("prod")
    sides.check_sides(ctx, F)
    ctx.clause("R-TABLE symmetry up to sender identity: call 3x3, executed-value 3x3, canon 2x2")
    ctx.clause("R-TABLE one-sided rows of the five mergers mirror each other")
    f, cells = mergetab.call_cells(ctx, F)
    for a in mergetab.VARIANTS:
        for b in mergetab.VARIANTS:
            if (a, b) > (b, a):
                continue
            o1, o2 = cells.get((a, b), set()), cells.get((b, a), set())
            if len(o1) != 1 or len(o2) != 1:
                ctx.violation("R-TABLE", "sym:call:%s/%s:shape" % (a, b), "cells (%s,%s)/(%s,%s) are not single-outcome: %s / %s" % (a, b, b, a, o1, o2))
                continue
            c1, c2 = _cls_call(a, b, next(iter(o1))), _cls_call(b, a, next(iter(o2)))
            ctx.require(c1 == c2, "R-TABLE", "sym:call:%s/%s" % (a, b), "merge(%s,%s) and merge(%s,%s) both give %s" % (a, b, b, a, c1),
                        "merge_call_results is order dependent: (prev=%s,current=%s) gives %s but (prev=%s,current=%s) gives %s" % (a, b, c1, b, a, c2),
                        sample={"pair": [a, b], "class": c1})
    f, ecells = mergetab.executed_cells(ctx, F)
    for a in mergetab.EXEC_KINDS:
        for b in mergetab.EXEC_KINDS:
            if (a, b) > (b, a):
                continue
            k1 = {("error" if o[0] == "error" else "Executed") for o in ecells.get((a, b), set())}
            k2 = {("error" if o[0] == "error" else "Executed") for o in ecells.get((b, a), set())}
            ctx.require(k1 == k2 and len(k1) == 1, "R-TABLE", "sym:executed:%s/%s" % (a, b), "merge_executed symmetric on (%s,%s): %s" % (a, b, sorted(k1)),
                        "merge_executed is order dependent on (%s,%s): %s vs %s" % (a, b, sorted(k1), sorted(k2)))
            if a != b:
                ctx.require(k1 == {"error"}, "R-TABLE", "sym:executed-kind-mismatch:%s/%s" % (a, b), "different value kinds never merge",
                            "merge_executed accepts different value kinds (%s,%s)" % (a, b))
    f, ccells = mergetab.canon_cells(ctx, F)
    def ccls(a, b, outs):
        r = set()
        for g, who in outs:
            r.add({"prev": a, "current": b, "error": "Error"}.get(who, "?"))
        return r
    for a in ("RequestSentBy", "Executed"):
        for b in ("RequestSentBy", "Executed"):
            if (a, b) > (b, a):
                continue
            c1, c2 = ccls(a, b, ccells.get((a, b), set())), ccls(b, a, ccells.get((b, a), set()))
            ctx.require(c1 == c2 and c1, "R-TABLE", "sym:canon:%s/%s" % (a, b), "canon merge symmetric on (%s,%s): %s" % (a, b, sorted(c1)),
                        "merge_canon_results is order dependent: (%s,%s) gives %s, swapped gives %s" % (a, b, sorted(c1), sorted(c2)))
    # Executed/Executed canon: error iff the CIDs differ
    ee = ccells.get(("Executed", "Executed"), set())
    ctx.require({who for g, who in ee} == {"prev", "error"}, "R-TABLE", "sym:canon:executed-differs", "two different executed canons -> error, equal -> keep",
                "merge_canon_results(Executed,Executed) outcomes are %s" % sorted(map(str, ee)))
    for name in mergetab.MERGERS:
        fn, kind, rows, lock = mergetab.next_state_table(F, name)
        nrm = lambda hs: tuple(sorted(h.replace("prev", "SIDE").replace("current", "SIDE") for h in hs))
        a = {(o[0], nrm(o[3])) for o in rows.get((kind, "None"), set())}
        b = {(o[0], nrm(o[3])) for o in rows.get(("None", kind), set())}
        ctx.require(a == b and a, "R-TABLE", "sym:one-sided:" + name, "one-sided rows mirror: %s" % sorted(map(str, a)),
                    "try_merge_next_state_as_%s treats a state present only in prev (%s) differently from one present only in current (%s)"
                    % (name, sorted(map(str, a)), sorted(map(str, b))))
