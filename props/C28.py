"""C28 — the beautifier faithfully renders the script structure (DESIGN §4/C28)."""
from rules import lib, facts
from rules.lib import Prov, show, walk

LEVEL = ("Mechanism level with obligations derived from the AST types: for every instruction type with child "
         "Instruction slots the handler reached from beautify_walker calls beautify_walker exactly once per slot, with "
         "the node argument deriving from exactly that field, in field order (each after the previous one succeeded), "
         "with indent + indent_step (or the unchanged indent for seq flattening); compound handlers write their header at "
         "`indent` first; every simple variant goes to beautify_simple/beautify_call with the node itself; Display impls "
         "and beautify_call read every operand field; the hopon rewrite is taken only on the try_hopon flag edge. Exact "
         "text and the hopon pattern's own conditions are not decided."
         " Added: Display impls hand their operand fields to the formatter in declaration (= script) order.")

HANDLERS = {
    "Seq": ("beautify_seq", "same"), "Par": ("beautify_par", "step"), "Xor": ("beautify_xor", "step"), "Match": ("beautify_match", "step"),
    "MisMatch": ("beautify_mismatch", "step"), "FoldScalar": ("beautify_fold_scalar", "step"), "FoldStream": ("beautify_fold_stream", "step"),
    "FoldStreamMap": ("beautify_fold_stream_map", "step"), "New": ("beautify_new", "step"),
}


def child_slots(adt):
    out = []
    for f in adt["variants"][0]["fields"]:
        if "instructions::Instruction<" in f["ty"]:
            out.append((f["name"], "Option<" in f["ty"]))
    return out


def check(ctx):
    F = ctx.facts("prod")
    ctx.clause("R-COVER child slots derived from AST types: one beautify_walker call per slot, right field, field order, right indent")
    ctx.clause("R-TABLE beautify_walker dispatch: compound variants to their handlers, simple variants to beautify_simple/beautify_call with the node")
    ctx.clause("R-COVER Display impls / beautify_call read every operand field")
    ctx.clause("R-GUARD hopon rewrite only on the try_hopon flag edge")

    inst = F.adt("ast::instructions::Instruction")
    w = F.fn("beautifier::Beautifier::beautify_walker")
    wp = Prov(w)
    rows = {}
    for st in lib.enumerate_paths(w, wp, max_paths=20000):
        var = st.variants.get((2, ())) or [v for k, v in st.variants.items() if k[0] == 2][:1]
        var = var if isinstance(var, str) else (var[0] if var else None)
        cs = [c for c in st.calls if c.path.startswith("air_beautifier::beautifier::Beautifier::")]
        if var and cs:
            c = cs[0]
            a = wp.operand(c.args[1])
            ind = wp.operand(c.args[2])
            rows[var] = (c.path.split("::")[-1], show(a), show(ind))
    n_slots = 0
    for v in inst["variants"]:
        name = v["name"]
        got = rows.get(name)
        if name in HANDLERS:
            want = HANDLERS[name][0]
            ok = got is not None and got[0] == want and ("node as %s" % name) in got[1] and got[2] == "indent"
            ctx.require(ok, "R-TABLE", "dispatch:" + name, "%s -> %s(node payload, indent)" % (name, want), "beautify_walker dispatches %s to %s" % (name, got))
        elif name == "Call":
            ctx.require(got is not None and got[0] == "beautify_call" and "node as Call" in got[1] and got[2] == "indent", "R-TABLE", "dispatch:Call", "Call -> beautify_call(call, indent)", "beautify_walker dispatches Call to %s" % (got,))
        elif name == "Error":
            ctx.require(got is not None and got[0] == "beautify_simple", "R-TABLE", "dispatch:Error", "Error -> beautify_simple(\"error\")", "beautify_walker dispatches Error to %s" % (got,))
        else:
            ctx.require(got is not None and got[0] == "beautify_simple" and ("node as %s" % name) in got[1] and got[2] == "indent", "R-TABLE", "dispatch:" + name,
                        "%s -> beautify_simple(node, indent)" % name, "beautify_walker dispatches %s to %s" % (name, got))
    for name, (hname, mode) in sorted(HANDLERS.items()):
        adt = F.adts.get("air_parser::ast::instructions::" + name)
        if not ctx.require(adt is not None, "R-COVER", "adt:" + name, "AST type found", "AST type %s not found" % name):
            continue
        if adt["variants"][0]["fields"] and adt["variants"][0]["fields"][0]["name"] in ("0",):
            slots = [(f["name"], False) for f in adt["variants"][0]["fields"] if "instructions::Instruction<" in f["ty"]]
        else:
            slots = child_slots(adt)
        h = F.fn("beautifier::Beautifier::" + hname)
        hp = Prov(h)
        calls = sorted(h.calls_to("Beautifier::beautify_walker"), key=lambda c: c.bb)
        pname = h.local_name(2)
        fields_of = []
        for c in calls:
            a = hp.operand(c.args[1])
            fs = [s[2] for s in walk(a) if s[0] == "field" and s[1][0] == "param" and s[1][1] == pname]
            fields_of.append(fs[0] if fs else show(a))
        n_slots += len(slots)
        ctx.require(fields_of == [s[0] for s in slots], "R-COVER", "children:%s" % name, "%s renders its children %s once each, in order" % (hname, [s[0] for s in slots]),
                    "%s calls beautify_walker on %s, the AST type's child slots are %s (missing, duplicated or reordered child)" % (hname, fields_of, [s[0] for s in slots]),
                    sample={"handler": hname, "children": fields_of})
        for i, c in enumerate(calls):
            ind = hp.operand(c.args[2])
            s = show(ind)
            if mode == "same":
                ok = ind[0] == "param" and ind[1] == "indent"
            else:
                adds = [x for x in walk(ind) if x[0] == "bin" and x[1] in ("Add", "AddWithOverflow")]
                ok = len(adds) == 1 and {show(adds[0][2]), show(adds[0][3])} == {"indent", "self.indent_step"}
            ctx.require(ok, "R-FLOW", "indent:%s#%d" % (name, i), "child %d rendered at %s" % (i, "indent" if mode == "same" else "indent + self.indent_step"),
                        "%s renders child %d at indent `%s`" % (hname, i, s))
            if i > 0:
                ctx.require(lib.guarded_by_ok(h, calls[i - 1], c.bb), "R-COVER", "order:%s#%d" % (name, i), "child %d only after child %d was written" % (i, i - 1), "%s can write child %d without child %d" % (hname, i, i - 1))
            # optional slot only under Some
            if i < len(slots) and slots[i][1]:
                vg = [v for e_, v in lib.variant_guards(h, c.bb, hp) if v == "Some"]
                ctx.require(bool(vg), "R-GUARD", "optional:%s#%d" % (name, i), "optional child rendered only when present", "%s renders optional child %d unconditionally" % (hname, i))
        if mode == "step" and calls:
            fi = [c for c in h.calls_to("beautifier::fmt_indent")]
            first_ok = bool(fi) and any(h.dominates(f_.bb, calls[0].bb) and show(hp.operand(f_.args[1])) == "indent" for f_ in fi)
            ctx.require(first_ok, "R-COVER", "header:%s" % name, "header line written at `indent` before the first child", "%s no longer writes its header at `indent` before the children" % hname)
    ctx.floor("R-COVER", "child slots derived from AST types", n_slots, 13)
    # hopon
    bn = F.fn("beautifier::Beautifier::beautify_new")
    bp = Prov(bn)
    th = bn.calls_to("virtual::try_hopon") or bn.calls_to("try_hopon")
    if ctx.require(len(th) == 1, "R-GUARD", "hopon:anchor", "try_hopon called once", "try_hopon calls: %d" % len(th)):
        g = [br for br, rel in lib.guards_of(bn, th[0].bb, bp) if rel and rel[0] == "bool" and rel[2] is True and "try_hopon" in show(br.expr) and br.expr[0] == "field"]
        ctx.require(bool(g), "R-GUARD", "hopon:flag", "hopon rewrite only when self.try_hopon is set", "beautify_new applies the hopon rewrite without the try_hopon flag")
        bs = bn.calls_to("Beautifier::beautify_simple")
        ctx.require(len(bs) == 1 and lib.guarded_by_ok(bn, th[0], bs[0].bb), "R-GUARD", "hopon:only-if-matched", "virtual instruction printed only when the pattern matched", "hopon printed without a successful match")
        wk = bn.calls_to("Beautifier::beautify_walker")
        ctx.require(len(wk) == 1 and bs and bs[0].bb not in bn.reach_after(wk[0].bb) and wk[0].bb not in bn.reach_after(bs[0].bb), "R-TABLE", "hopon:exclusive", "either the hopon line or the normal rendering", "beautify_new renders both hopon and the normal form")
    # 3. operands are printed: Display impls read every non-child, non-span field
    disp = {}
    for f in F.impl_fns("fmt::Display", "air_parser::ast::", "fmt"):
        im = F.impl_of(f)
        disp[im["self"].split("<")[0]] = f
    n_disp = 0
    for tname in ("Call", "Canon", "CanonMap", "CanonStreamMapScalar", "Ap", "ApMap", "Match", "MisMatch", "FoldScalar", "FoldStream", "FoldStreamMap", "New", "Next"):
        adt = F.adts["air_parser::ast::instructions::" + tname]
        f = disp.get(adt["path"])
        if tname == "Call":
            f = None
        fields = [x["name"] for x in adt["variants"][0]["fields"] if "instructions::Instruction<" not in x["ty"] and not x["ty"].endswith("span::Span")]
        if tname == "Call":
            rd = set()
            for fn in [F.fn("beautifier::Beautifier::beautify_call")]:
                for bi, si, s in fn.stmts():
                    for pl in [s["lhs"]] + [s["rv"].get("place")] + [facts.op_place(o) for o in facts.rv_operands(s["rv"])]:
                        if pl:
                            rd |= {fld for a, fld in lib.place_fields(pl) if a.endswith("instructions::Call")}
                for c in fn.calls:
                    for o in c.args:
                        pl = facts.op_place(o)
                        if pl:
                            rd |= {fld for a, fld in lib.place_fields(pl) if a.endswith("instructions::Call")}
            ctx.require(set(fields) <= rd, "R-COVER", "operands:Call", "beautify_call reads %s" % fields, "beautify_call does not print Call fields %s" % sorted(set(fields) - rd))
            n_disp += 1
            continue
        if not ctx.require(f is not None, "R-COVER", "display:anchor:" + tname, "Display impl found", "Display impl for %s not found" % tname):
            continue
        rd = set()
        reach, _ = F.reachable_fns([f])
        for fid in reach:
            fn = F.fns[fid]
            for bi, si, s in fn.stmts():
                for pl in [s["lhs"]] + [s["rv"].get("place")] + [facts.op_place(o) for o in facts.rv_operands(s["rv"])]:
                    if pl:
                        rd |= {fld for a, fld in lib.place_fields(pl) if a == adt["path"]}
            for c in fn.calls:
                for o in c.args:
                    pl = facts.op_place(o)
                    if pl:
                        rd |= {fld for a, fld in lib.place_fields(pl) if a == adt["path"]}
        n_disp += 1
        ctx.require(set(fields) <= rd, "R-COVER", "operands:" + tname, "Display for %s prints %s" % (tname, fields), "Display for %s does not read operand field(s) %s" % (tname, sorted(set(fields) - rd)),
                    sample={"type": tname, "fields": fields})
    ctx.floor("R-COVER", "operand-printing impls checked", n_disp, 12)
    # operands are printed "as in the script": the AST structs declare their operands in script order, and each Display impl
    # hands the fields to the formatter in that same order (the argument array of format_args! is an ordered aggregate)
    ctx.clause("R-FLOW Display impls print the operand fields in declaration (= script) order")
    n_ord = 0
    for f in F.impl_fns("fmt::Display", "air_parser::ast::", "fmt"):
        if not f.file.endswith("ast/instructions/traits.rs"):
            continue
        selfty = F.impl_of(f)["self"].split("<")[0]
        adt_ = F.adts.get(selfty)
        if adt_ is None or len(adt_["variants"]) != 1:
            continue
        decl = [fl["name"] for fl in adt_["variants"][0]["fields"]]
        fp_ = Prov(f)
        printed = []
        for bi, si, s_ in f.stmts():
            rv = s_["rv"]
            if rv["k"] == "agg" and rv.get("kind") == "array":
                for o in rv["ops"]:
                    e = fp_.operand(o)
                    fl = [x[2] for x in walk(e) if x[0] == "field" and x[1][0] == "param"]
                    if fl:
                        printed.append(fl[0])
        if not printed:
            continue
        n_ord += 1
        it = iter(decl)
        in_order = all(any(d == x for d in it) for x in printed)
        tname = selfty.split("::")[-1]
        ctx.require(in_order, "R-FLOW", "display-order:" + tname, "Display for %s prints %s in declaration order" % (tname, printed),
                    "Display for %s prints its operands as %s but the script order (field order of the AST node) is %s: the beautifier shows operands swapped" % (tname, printed, decl),
                    sample={"type": tname, "printed": printed})
    ctx.floor("R-FLOW", "Display impls with ordered operands", n_ord, 10)
