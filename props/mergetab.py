"""Decision tables of the trace-state mergers, extracted from MIR (R-TABLE), and the laws checked on them.
Shared by C05, C07, C08, C09, C11."""
from rules import lib
from rules.lib import Prov, PathProv, show, walk

ORDER = {"RequestSentBy": 0, "Executed": 1, "Failed": 1}


def _param_variants(fn, st, prov):
    """{param name: variant} for the constraints of a path that concern (projections of) parameters."""
    out = {}
    for key, var in st.variants.items():
        e = lib.constraint_subject(prov, key)
        while e[0] in ("as",):
            e = e[1]
        if e[0] == "param":
            # only top-level discriminants (no field descent): key projections empty or tuple index
            depth_fields = [p for p in key[1] if p[0] == "f"]
            subj = lib.constraint_subject(prov, key)
            if subj[0] == "param":
                out[e[1]] = var
    return out


def _ret_kind(fn, st, names):
    """Classify the value a path returns: which parameter it is, a helper call, or an error."""
    pp = PathProv(fn, st.blocks)
    e = pp.local(0)
    res = lib.path_result(fn, st)
    def classify(x):
        x0 = x
        while x0[0] in ("ok", "try"):
            x0 = x0[1]
        if x0[0] == "param":
            return x0[1]
        if x0[0] == "agg" and len(x0[3]) == 0:
            return x0[2]
        if x0[0] == "agg" and len(x0[3]) == 1:
            inner = list(x0[3].values())[0]
            k = classify(inner)
            return "%s(%s)" % (x0[2], k)
        if x0[0] == "call":
            return "call:" + x0[1].split("::")[-1]
        if x0[0] == "tuple":
            return tuple(classify(y) for y in x0[1])
        if x0[0] == "const":
            return str(x0[1]).split("::")[-1]
        return show(x0)[:60]
    if e[0] == "agg" and e[2] in ("Ok", "Err") and "0" in e[3]:
        return e[2], classify(e[3]["0"])
    if e[0] == "call" and lib.is_from_residual(e[1]) or res == "Err":
        src = [s for s in walk(e) if s[0] == "err"]
        return "Err", ("propagated:" + (src[0][1][1].split("::")[-1] if src and src[0][1][0] == "call" else "?"))
    return "?", classify(e)


def pair_table(fn, pnames, max_paths=60000):
    """{(variant of pnames[0], variant of pnames[1], extra guards): set of (result, classification, checks)}"""
    prov = Prov(fn)
    tbl = {}
    for st in lib.enumerate_paths(fn, prov, max_paths=max_paths):
        pv = _param_variants(fn, st, prov)
        a, b = pv.get(pnames[0]), pv.get(pnames[1])
        guards = tuple(sorted((show(br.expr)[:80], val) for br, val in st.conds if not isinstance(br, str)))
        res, kind = _ret_kind(fn, st, pnames)
        checks = tuple(sorted({c.path.split("::")[-1] for c in st.calls
                               if c.local and not lib.is_transparent(c.path) and "Error" not in c.path and "fmt" not in c.path}))
        tbl.setdefault((a, b, guards), set()).add((res, kind, checks))
    return tbl


# ------------------------------------------------------------------------------------------------
def call_table(F):
    f = F.fn("call_merger::merge_call_results", crate="air_trace_handler")
    return f, pair_table(f, ("prev_call", "current_call"))


def executed_table(F):
    f = F.fn("call_merger::utils::merge_executed")
    return f, pair_table(f, ("prev_value", "current_value"))


def canon_table(F):
    f = F.fn("canon_merger::merge_canon_results")
    return f, pair_table(f, ("prev_canon_result", "current_canon_result"))


def _cell(tbl, a, b):
    out = set()
    for (x, y, g), v in tbl.items():
        if (x == a or x is None) and (y == b or y is None):
            for r in v:
                out.add((g, r))
    return out


VARIANTS = ("RequestSentBy", "Executed", "Failed")


def call_cells(ctx, F):
    """Normalised 3x3 table: (a,b) -> 'prev' | 'current' | 'helper' | 'error', with the scheme and the checks."""
    f, tbl = call_table(F)
    cells = {}
    for a in VARIANTS:
        for b in VARIANTS:
            c = _cell(tbl, a, b)
            outs = set()
            for g, (res, kind, checks) in c:
                if res == "Ok" and isinstance(kind, tuple):
                    who = {"prev_call": "prev", "current_call": "current"}.get(kind[0], "helper" if str(kind[0]).startswith("call:merge_executed") else str(kind[0]))
                    outs.add((who, kind[1], checks))
                elif res == "Err" and isinstance(kind, str) and kind.startswith("propagated:"):
                    continue      # error exit of a check on this cell (e.g. check_equal failed); the cell's Ok outcome is listed separately
                else:
                    outs.add(("error", None, checks))
            cells[(a, b)] = outs
    return f, cells


EXPECTED_CALL = {
    ("Failed", "Failed"): ("prev", "Previous"),
    ("RequestSentBy", "Failed"): ("current", "Current"),
    ("Failed", "RequestSentBy"): ("prev", "Previous"),
    ("RequestSentBy", "RequestSentBy"): ("prev", "Previous"),
    ("RequestSentBy", "Executed"): ("current", "Current"),
    ("Executed", "RequestSentBy"): ("prev", "Previous"),
    ("Executed", "Executed"): ("helper", "Both"),
    ("Executed", "Failed"): ("error", None),
    ("Failed", "Executed"): ("error", None),
}


def _single(ctx, rule, key, outs, what):
    if len(outs) != 1:
        ctx.violation(rule, key, "%s: cell has %d distinct outcomes %s (expected one)" % (what, len(outs), sorted(map(str, outs))))
        return None
    return next(iter(outs))


def call_merge_prefers_result(ctx, F):
    """C05.6 / C09.1: no cell returns the RequestSentBy operand when the other side is Executed/Failed."""
    f, cells = call_cells(ctx, F)
    n = 0
    for (a, b), outs in sorted(cells.items()):
        o = _single(ctx, "R-TABLE", "call-merge:cell:%s/%s" % (a, b), outs, "merge_call_results(%s,%s)" % (a, b))
        if o is None:
            continue
        who = o[0]
        ret = {"prev": a, "current": b, "helper": "Executed", "error": None}.get(who)
        if ret is None:
            ctx.ok("R-TABLE", "call-merge:mono:%s/%s" % (a, b), "error cell")
            continue
        low = ORDER[ret] < max(ORDER[a], ORDER[b])
        ctx.require(not low, "R-TABLE", "call-merge:mono:%s/%s" % (a, b), "merge(%s,%s) keeps %s (%s)" % (a, b, ret, who),
                    "merge_call_results(prev=%s, current=%s) returns the %s operand (%s): a known result is replaced by a pending request"
                    % (a, b, who, ret), sample={"cell": [a, b], "returns": who, "scheme": o[1]})
        n += 1
    ctx.floor("R-TABLE", "call merge cells", len(cells), 9)
    return cells


def call_merge_keeps_pending_mark(ctx, F):
    """C05 / C06: merge(RequestSentBy, RequestSentBy) keeps the PREVIOUS operand.  The previous data is the peer's own:
    its `RequestSentBy(PeerIdWithCallId{self, id})` is the only record that call `id` was handed to the host; if the
    incoming state replaced it the call would be requested again under a new id and the result arriving under the
    old id would match no pending call."""
    f, cells = call_cells(ctx, F)
    outs = cells.get(("RequestSentBy", "RequestSentBy"), set())
    o = next(iter(outs)) if len(outs) == 1 else None
    ctx.require(o is not None and o[0] == "prev" and o[1] == "Previous", "R-TABLE", "call-merge:pending-mark-kept",
                "merge(RequestSentBy, RequestSentBy) keeps the previous (own) pending mark, scheme Previous",
                "merge_call_results(RequestSentBy, RequestSentBy) is %s: the peer's own pending-request mark (sender + call id) can be "
                "replaced by the incoming state, so the call is requested again and its first result is orphaned" % sorted(map(str, outs)),
                sample={"cell": ["RequestSentBy", "RequestSentBy"], "outcome": str(o)})


def positions_mapping_table(ctx, F):
    """prepare_positions_mapping(scheme): Previous -> new_to_prev_pos[new] = prev_slider.position-1 only; Current ->
    new_to_current_pos[new] = current_slider.position-1 only; Both -> both, each from its own slider.  The fold FSM
    finds the fold lore of a merged stream value through these maps (meet_iteration_start); a wrong source position
    makes it miss the other side's iteration, whose results are then silently dropped."""
    f = F.fn("position_mapping::prepare_positions_mapping")
    prov = Prov(f)
    rows = {}
    for st in lib.enumerate_paths(f, prov):
        var = st.variants.get((1, ()))
        pp = PathProv(f, st.blocks)
        ins = []
        for c in st.calls:
            if c.path.endswith("::insert"):
                recv = pp.operand(c.args[0])
                key = pp.operand(c.args[1])
                val = pp.operand(c.args[2])
                which = "prev" if lib.mentions_field(recv, "new_to_prev_pos") else "current" if lib.mentions_field(recv, "new_to_current_pos") else "?"
                src = ("prev" if lib.mentions_call(val, "DataKeeper::prev_slider") else "") + ("current" if lib.mentions_call(val, "DataKeeper::current_slider") else "")
                shape = any(x[0] == "call" and x[1].endswith("::sub") and x[2][1][0] == "const" and x[2][1][2] == "1" and lib.mentions_call(x[2][0], "TraceSlider::position") for x in walk(val)) or \
                    any(x[0] == "bin" and x[1] in ("Sub", "SubWithOverflow") and x[3][0] == "const" and x[3][2] == "1" for x in walk(val))
                keyok = lib.mentions_call(key, "result_trace_next_pos")
                ins.append((which, src, shape, keyok))
        rows[var] = sorted(ins)
    want = {"Previous": [("prev", "prev", True, True)], "Current": [("current", "current", True, True)],
            "Both": [("current", "current", True, True), ("prev", "prev", True, True)]}
    ctx.require(rows == want, "R-TABLE", "positions-mapping", "scheme -> (map, slider) pairs: Previous->prev, Current->current, Both->both, each position()-1 keyed by the next result position",
                "prepare_positions_mapping table is %s, expected each map to be filled from its own slider's position()-1 under the next result-trace position" % rows,
                sample={"table": {str(k): [list(x) for x in v] for k, v in rows.items()}})
    # consumer: FoldFSM::meet_iteration_start looks the prev lore up through new_to_prev_pos and the current lore through new_to_current_pos
    m = F.fn("fold_fsm::FoldFSM::meet_iteration_start")
    mp = Prov(m)
    pr = m.calls_to("FoldFSM::prepare")
    ok = len(pr) == 1
    callee = F.fns.get(pr[0].cid) if ok else None
    ok = ok and callee is not None
    if ok:
        # arguments are located by the callee's parameter names (a private method's parameter order is not part of any contract)
        names = [callee.names.get(i + 1) for i in range(len(pr[0].args))]
        ok = "prev_lore" in names and "current_lore" in names
    if ok:
        a = [None, mp.operand(pr[0].args[names.index("prev_lore")]), mp.operand(pr[0].args[names.index("current_lore")])]
        def lore_ok(e, posmap, fold):
            cl = [x for x in walk(e) if x[0] == "closure"]
            return lib.mentions_field(e, posmap) and any(lib.mentions_field(u, fold) for x in cl for u in x[2])
        ok = lore_ok(a[1], "new_to_prev_pos", "prev_fold") and lore_ok(a[2], "new_to_current_pos", "current_fold") and \
            not lib.mentions_field(a[1], "new_to_current_pos") and not lib.mentions_field(a[2], "new_to_prev_pos")
    ctx.require(ok, "R-FLOW", "positions-mapping:consumer", "meet_iteration_start: prev lore via new_to_prev_pos/prev_fold, current lore via new_to_current_pos/current_fold",
                "FoldFSM::meet_iteration_start no longer pairs new_to_prev_pos with prev_fold and new_to_current_pos with current_fold")


def row_scheme_agrees(ctx, F):
    """For the two mergers that feed stream values (call, ap): the PreparationScheme handed on with a merged state names
    the side(s) the state was met on — (X, None) -> Previous, (None, X) -> Current, (Ap, Ap) -> Both (for calls the
    two-sided case is decided by merge_call_results, see call_scheme_agrees).  The scheme decides which position maps
    get an entry for the new trace position (positions_mapping_table) and hence whether a later fold finds the
    iteration recorded by each side."""
    for name, callee in (("ap", "prepare_merge_result"), ("call", "prepare_call_result")):
        fname, kind = MERGERS[name]
        f = F.fn(fname, crate="air_trace_handler")
        prov = Prov(f)
        got = {}
        for st in lib.enumerate_paths(f, prov, max_paths=60000):
            pp = PathProv(f, st.blocks)
            for c in st.calls:
                if not c.path.endswith(callee):
                    continue
                state, scheme = pp.operand(c.args[0]), pp.operand(c.args[1])
                side = ("prev" if lib.mentions_call(state, "prev_slider_mut") else "") + ("+current" if lib.mentions_call(state, "current_slider_mut") else "")
                both_met = all(any(v == "Some" and k[1] == (("f", i),) for k, v in st.variants.items()) for i in (0, 1))
                sch = scheme[2] if scheme[0] == "agg" else ("from-merge" if lib.mentions_call(scheme, "merge_call_results") else show(scheme)[:40])
                got.setdefault(("both" if both_met else side.strip("+")), set()).add(sch)
        want = {"prev": {"Previous"}, "current": {"Current"}, "both": {"Both"} if name == "ap" else {"from-merge"}}
        ctx.require(got == want, "R-TABLE", "row-scheme:" + name, "%s merger: met on prev only -> Previous, current only -> Current, both -> %s" % (name, "Both" if name == "ap" else "scheme of merge_call_results"),
                    "try_merge_next_state_as_%s hands on schemes %s, expected %s: the position maps would miss (or invent) the side a state was met on" % (name, {k: sorted(v) for k, v in got.items()}, {k: sorted(v) for k, v in want.items()}),
                    sample={"merger": name, "schemes": {k: sorted(v) for k, v in got.items()}})


def fold_lore_phases(ctx, F):
    """Fold lore application is a 2x2 table (side x phase): apply_fold_lore_before moves BOTH sliders to their
    before-subtrace, apply_fold_lore_after moves BOTH to their after-subtrace, each side from its own lore with its own
    context type; and apply_fold_lore(ctx, phase) picks the slider of `ctx` and the (begin, len) pair of `phase`."""
    for fname, phase in (("lore_applier::apply_fold_lore_before", "Before"), ("lore_applier::apply_fold_lore_after", "After")):
        f = F.fn(fname)
        p = Prov(f)
        rows = []
        for c in f.calls_to("lore_applier::apply_fold_lore"):
            lore, ctxt, ph = p.operand(c.args[1]), p.operand(c.args[2]), p.operand(c.args[3])
            side = "prev" if lib.mentions_param(lore, "prev_fold_lore") else "current" if lib.mentions_param(lore, "current_fold_lore") else "?"
            rows.append((side, ctxt[2] if ctxt[0] == "agg" else show(ctxt), ph[2] if ph[0] == "agg" else show(ph)))
            ctx.require(lib.err_propagates(f, c), "R-MUST", "fold-lore:%s:%s:propagated" % (phase, side), "slider error propagated", "%s ignores a slider error" % fname)
        want = [("current", "Current", phase), ("prev", "Previous", phase)]
        ctx.require(sorted(rows) == want, "R-TABLE", "fold-lore:phase:" + phase, "%s: (prev lore, Previous, %s) and (current lore, Current, %s)" % (fname.split("::")[-1], phase, phase),
                    "%s applies %s, expected both sides with phase %s: one slider would be positioned on the wrong half of the iteration's recorded states" % (fname, sorted(rows), phase),
                    sample={"fn": fname, "rows": sorted(rows)})
    af = F.fn("lore_applier::apply_fold_lore")
    ap_ = Prov(af)
    rows = {}
    for st in lib.enumerate_paths(af, ap_, max_paths=20000):
        cty = [v for k, v in st.variants.items() if v in ("Previous", "Current")]
        ph = [v for k, v in st.variants.items() if v in ("Before", "After")]
        pp = PathProv(af, st.blocks)
        for c in st.calls:
            if c.path.endswith("TraceSlider::set_position_and_len"):
                recv, a1, a2 = pp.operand(c.args[0]), pp.operand(c.args[1]), pp.operand(c.args[2])
                sl = "prev" if lib.mentions_call(recv, "prev_slider_mut") else "current" if lib.mentions_call(recv, "current_slider_mut") else "?"
                sub = {x[2] for x in walk(a1) if x[0] == "field" and x[2].endswith("_subtrace")} | {x[2] for x in walk(a2) if x[0] == "field" and x[2].endswith("_subtrace")}
                flds = ([x[2] for x in walk(a1) if x[0] == "field" and x[2] in ("begin_pos", "subtrace_len")], [x[2] for x in walk(a2) if x[0] == "field" and x[2] in ("begin_pos", "subtrace_len")])
                rows[(cty[0] if cty else None, ph[0] if ph else None)] = (sl, tuple(sorted(sub)), flds[0][:1], flds[1][:1])
    want = {("Previous", "Before"): ("prev", ("before_subtrace",), ["begin_pos"], ["subtrace_len"]), ("Previous", "After"): ("prev", ("after_subtrace",), ["begin_pos"], ["subtrace_len"]),
            ("Current", "Before"): ("current", ("before_subtrace",), ["begin_pos"], ["subtrace_len"]), ("Current", "After"): ("current", ("after_subtrace",), ["begin_pos"], ["subtrace_len"])}
    ctx.require(rows == want, "R-TABLE", "fold-lore:apply", "apply_fold_lore: slider of the context, (begin_pos, subtrace_len) of the phase's subtrace",
                "apply_fold_lore table is %s" % {str(k): v for k, v in rows.items()}, sample={"table": {str(k): list(map(str, v)) for k, v in rows.items()}})


def call_scheme_agrees(ctx, F):
    """The PreparationScheme reported with a merged call names the side whose operand is returned."""
    f, cells = call_cells(ctx, F)
    for (a, b), outs in sorted(cells.items()):
        if len(outs) != 1:
            continue
        who, scheme, checks = next(iter(outs))
        want = {"prev": "Previous", "current": "Current", "helper": "Both"}.get(who)
        if want is None:
            continue
        ctx.require(scheme == want, "R-TABLE", "call-merge:scheme:%s/%s" % (a, b), "scheme %s for %s operand" % (scheme, who),
                    "merge_call_results(%s,%s) returns the %s operand but reports scheme %s" % (a, b, who, scheme))


EXEC_KINDS = ("Scalar", "Stream", "Unused")


def executed_cells(ctx, F):
    f, tbl = executed_table(F)
    cells = {}
    for a in EXEC_KINDS:
        for b in EXEC_KINDS:
            outs = set()
            for g, (res, kind, checks) in _cell(tbl, a, b):
                if res == "Ok":
                    outs.add(("prev" if kind == "Executed(prev_value)" else "current" if kind == "Executed(current_value)" else str(kind), checks))
                elif isinstance(kind, str) and kind.startswith("propagated:"):
                    continue
                else:
                    outs.add(("error", checks))
            cells[(a, b)] = outs
    return f, cells


def canon_cells(ctx, F):
    f, tbl = canon_table(F)
    cells = {}
    for a in ("RequestSentBy", "Executed"):
        for b in ("RequestSentBy", "Executed"):
            outs = set()
            for g, (res, kind, checks) in _cell(tbl, a, b):
                gs = tuple(x for x in g)
                who = {"prev_canon_result": "prev", "current_canon_result": "current"}.get(kind, "error" if res == "Err" else str(kind))
                outs.add((gs, who))
            cells[(a, b)] = outs
    return f, cells


# ------------------------------------------------------------------------------------------------
# try_merge_next_state_as_* : tables over (Option<prev state>, Option<current state>)

MERGERS = {
    "call": ("call_merger::try_merge_next_state_as_call", "Call"),
    "canon": ("canon_merger::try_merge_next_state_as_canon", "Canon"),
    "ap": ("ap_merger::try_merge_next_state_as_ap", "Ap"),
    "par": ("par_merger::try_merge_next_state_as_par", "Par"),
    "fold": ("fold_merger::try_merge_next_state_as_fold", "Fold"),
}


def _side(e):
    s = show(e)
    p = "prev_slider_mut" in s
    c = "current_slider_mut" in s
    if p and not c:
        return "prev"
    if c and not p:
        return "current"
    return None


def next_state_table(F, name):
    """rows: (prev: None|kind|'other', current: ...) -> set of (result, mentions_prev, mentions_current, helper calls)"""
    fname, kind = MERGERS[name]
    f = F.fn(fname, crate="air_trace_handler")
    prov = Prov(f)
    rows = {}
    lock = []
    for st in lib.enumerate_paths(f, prov, max_paths=60000):
        sides = {"prev": [None, None], "current": [None, None]}
        for key, var in st.variants.items():
            subj = lib.constraint_subject(prov, key)
            sd = _side(subj)
            if sd is None:
                continue
            if var in ("Some", "None") and not any(p[0] == "dc" for p in key[1]):
                sides[sd][0] = var
            elif any(p == ("dc", "Some") for p in key[1]) and len([p for p in key[1] if p[0] == "dc"]) == 1:
                sides[sd][1] = var
        def lab(x):
            if x[0] == "None":
                return "None"
            if x[0] == "Some":
                return x[1] if x[1] is not None else "Some(?)"
            return "?"
        row = (lab(sides["prev"]), lab(sides["current"]))
        pp = PathProv(f, st.blocks)
        e = pp.local(0)
        res = lib.path_result(f, st)
        s = show(e)
        helpers = tuple(sorted({c.path.split("::")[-1] for c in st.calls if c.local and c.fn is f and
                                not c.path.endswith(("next_state", "prev_slider_mut", "current_slider_mut")) and "Error" not in c.path}))
        errc = tuple(sorted({c.path.split("::")[-1] for c in st.calls if "Error" in c.path}))
        if errc:
            res = "Err"
        elif res == "Err" and any(lib.is_from_residual(c.path) for c in st.calls):
            res = "Prop"      # error of a fallible helper propagated with `?`
        rows.setdefault(row, set()).add((res, "prev_slider_mut" in s, "current_slider_mut" in s, helpers))
        ns = [c for c in st.calls if c.path.endswith("TraceSlider::next_state")]
        lock.append((row, sorted(_side(prov.operand(c.args[0])) or "?" for c in ns)))
    return f, kind, rows, lock


def mergers_rows_and_lockstep(ctx, F):
    """The five try_merge_next_state_as_* functions: one-sided rows return the only present state, two-sided rows use both,
    mismatching kinds are errors, and BOTH sliders are advanced exactly once on every path (lock-step).  Shared by C09
    (nothing is forgotten) and C04 (the two traces stay aligned)."""
    # five mergers: one-sided + lock-step
    for name in MERGERS:
        f, kind, rows, lock = next_state_table(F, name)
        ctx.floor("R-TABLE", "rows of try_merge_next_state_as_" + name, len(rows), 4)
        for row, want_prev, want_cur in (((kind, "None"), True, False), (("None", kind), False, True)):
            outs = rows.get(row, set())
            good = [o for o in outs if o[0] in ("Ok", "call:prepare_merge_result", "call:prepare_single_canon_result", "?") or str(o[0]).startswith("call:")]
            ok = bool(outs) and all(o[0] != "Err" for o in outs) and all(o[1] == want_prev and o[2] == want_cur for o in outs)
            ctx.require(ok, "R-TABLE", "one-sided:%s:%s/%s" % (name, row[0], row[1]),
                        "(%s,%s) -> result built from the %s state only, no error" % (row[0], row[1], "previous" if want_prev else "current"),
                        "try_merge_next_state_as_%s row (%s,%s) is %s: the only present state is not what is returned" % (name, row[0], row[1], sorted(map(str, outs))),
                        sample={"merger": name, "row": list(row), "outcomes": sorted(map(str, outs))})
        outs = rows.get(("None", "None"), set())
        ctx.require(bool(outs) and all(o[0] != "Err" and not o[1] and not o[2] for o in outs), "R-TABLE", "one-sided:%s:None/None" % name,
                    "(None,None) -> not-met value, no error", "try_merge_next_state_as_%s row (None,None) is %s" % (name, sorted(map(str, outs))))
        outs = rows.get((kind, kind), set())
        okb = bool(outs) and all(o[1] and o[2] for o in outs if o[0] != "Err") if name in ("par", "fold", "call", "canon") else bool(outs)
        if name == "ap":
            okb = bool(outs) and all(o[1] and not o[2] for o in outs)   # (Ap,Ap) keeps the previous ap (same content by construction)
        ctx.require(okb, "R-TABLE", "two-sided:%s" % name, "(%s,%s) -> result uses %s" % (kind, kind, "both states" if name != "ap" else "the previous state"),
                    "try_merge_next_state_as_%s row (%s,%s) is %s" % (name, kind, kind, sorted(map(str, outs))))
        # mismatching kinds -> error
        bad = [r for r in rows if r[0] not in ("None", kind) or r[1] not in ("None", kind)]
        for r in bad:
            ctx.require(all(o[0] == "Err" for o in rows[r]), "R-TABLE", "kind-mismatch:%s:%s/%s" % (name, r[0], r[1]), "incompatible kinds -> error",
                        "try_merge_next_state_as_%s accepts states (%s,%s)" % (name, r[0], r[1]))
        # lock-step
        okl = bool(lock) and all(ns == ["current", "prev"] for _, ns in lock)
        ctx.require(okl, "R-MUST", "lock-step:" + name, "next_state called exactly once on each slider on all %d paths" % len(lock),
                    "try_merge_next_state_as_%s does not advance both sliders exactly once on every path: %s"
                    % (name, sorted({str(ns) for _, ns in lock if ns != ["current", "prev"]})))
