"""Clauses shared by several properties."""
from rules import lib
from rules.lib import Prov, show, walk

GUARDED_STEPS = [
    # callee suffix, minimum number of call sites in execute_air_impl
    ("sizes_limits_check::check_against_size_limits", 1),
    ("preparation::parse_data", 1),
    ("verification_step::verify", 1),
    ("preparation::prepare", 1),
    ("signing_step::sign_produced_cids", 1),
]


def farewell_sites(ctx, F, only=None):
    """R-FLOW/R-GUARD: in execute_air_impl the Err edge of every guarded step leads to
    `return Err(from_uncatchable_error(raw_prev_data, <that step's error>, ..))`, where the data
    argument is the untouched `raw_prev_data` parameter."""
    ex = F.fn("runner::execute_air_impl")
    p = Prov(ex)
    fw = ex.calls_to("farewell_step::outcome::from_uncatchable_error")
    ctx.floor("R-FLOW", "from_uncatchable_error sites in execute_air_impl", len(fw), 7)
    # raw_prev_data is never written / mutably borrowed
    pidx = [i for i in range(1, ex.argc + 1) if ex.local_name(i) == "raw_prev_data"]
    if not ctx.require(len(pidx) == 1, "R-FLOW", "farewell:param", "parameter raw_prev_data present",
                       "execute_air_impl no longer has a raw_prev_data parameter"):
        return
    pl = pidx[0]
    writes = []
    for bi, si, s in ex.stmts():
        if s["lhs"]["l"] == pl:
            writes.append("bb%d assign" % bi)
        if s["rv"]["k"] in ("ref", "rawptr") and s["rv"]["mut"] and s["rv"]["place"]["l"] == pl:
            writes.append("bb%d &mut" % bi)
    for c in ex.calls:
        if c.dest["l"] == pl:
            writes.append("bb%d call-dest" % c.bb)
    ctx.require(not writes, "R-FLOW", "farewell:prev-immutable", "raw_prev_data is never written or mutably borrowed",
                "raw_prev_data is modified in execute_air_impl (%s)" % writes)
    for name, floor in GUARDED_STEPS:
        if only and name not in only:
            continue
        steps = ex.calls_to(name)
        ctx.floor("R-GUARD", "%s call in execute_air_impl" % name, len(steps), floor)
        for i, st in enumerate(steps):
            edges = lib.result_edges(ex, st)
            err = edges.get("err")
            if not ctx.require(err is not None, "R-GUARD", "farewell:%s#%d:inspected" % (name, i),
                               "result of %s is matched" % name,
                               "the result of %s in execute_air_impl is not inspected (error ignored?)" % name):
                continue
            # from err edge: every path to return passes a from_uncatchable_error site
            fw_bbs = [c.bb for c in fw if c.bb in ex.reach_from(err)]
            ok = bool(fw_bbs) and ex.must_pass(err, fw_bbs)
            ctx.require(ok, "R-MUST", "farewell:%s#%d:err-to-farewell" % (name, i),
                        "Err edge of %s always reaches from_uncatchable_error" % name,
                        "an error of %s can reach the end of execute_air_impl without from_uncatchable_error" % name)
            for c in [c for c in fw if ex.dominates(err, c.bb)]:
                _check_fw_site(ctx, ex, p, c, "%s#%d" % (name, i), want_err=name)
    if not only:
        for j, c in enumerate(fw):
            _check_fw_site(ctx, ex, p, c, "site#%d" % j, want_err=None)


def _check_fw_site(ctx, ex, p, c, label, want_err):
    d = p.operand(c.args[0])
    ctx.require(d[0] == "param" and d[1] == "raw_prev_data", "R-FLOW", "farewell:%s:data-is-prev" % label,
                "data argument is the caller's raw_prev_data",
                "from_uncatchable_error at %s is given `%s` as data, expected the untouched raw_prev_data" % (c.loc().split(":")[0], show(d)),
                sample={"site": c.loc(), "data": show(d)})
    if want_err:
        e = p.operand(c.args[1])
        ctx.require(e[0] == "err" and lib.mentions_call(e, want_err), "R-FLOW", "farewell:%s:error-is-steps" % label,
                    "error argument is that step's own error",
                    "from_uncatchable_error after %s reports `%s`" % (want_err, show(e)[:200]))
    # the outcome is returned as Err(outcome): the call's destination flows into _0's Err aggregate
    e0 = p.local(0)
    wrapped = any(s[0] == "agg" and s[2] == "Err" and any(x[0] == "call" and x[3] is c for x in walk(s)) for s in walk(e0))
    ctx.require(wrapped, "R-FLOW", "farewell:%s:returned" % label, "outcome is what the function returns",
                "the outcome built by from_uncatchable_error at %s is not the returned value" % c.loc())


# ------------------------------------------------------------------------------------------------
def owner_name(fn):
    return fn.path.split("::{closure")[0].split("::")[-1]


def owner_qual(fn):
    segs = fn.path.split("::{closure")[0].split("::")
    return "::".join(segs[-2:])


def field_mutators(F, adt, field, reach=None):
    """{owner function name: [kinds]} for every write / mutable borrow / move-out of adt.field."""
    out = {}
    for fn, bb, kind, _ in lib.field_accesses(F, adt, field):
        if reach is not None and fn.id not in reach:
            continue
        if fn.ex and any("derive" in x for x in fn.ex):
            continue
        if kind in ("write", "mutborrow", "move"):
            out.setdefault(owner_qual(fn), set()).add(kind)
    return out


def eq_guard(fn, prov, bb, left_pred, right_pred):
    """Is block bb guarded (on every path) by an edge on which `L == R` holds with L,R satisfying the
    predicates (either order)?  Returns the guard's rendering or None."""
    for br, rel in lib.guards_of(fn, bb, prov):
        if rel is None or rel[0] != "==":
            continue
        a, b = rel[1], rel[2]
        if (left_pred(a) and right_pred(b)) or (left_pred(b) and right_pred(a)):
            return "%s == %s" % (show(a), show(b))
    return None


def ne_guard(fn, prov, bb, left_pred, right_pred):
    for br, rel in lib.guards_of(fn, bb, prov):
        if rel is None or rel[0] != "!=":
            continue
        a, b = rel[1], rel[2]
        if (left_pred(a) and right_pred(b)) or (left_pred(b) and right_pred(a)):
            return "%s != %s" % (show(a), show(b))
    return None


def is_current_peer(e):
    return lib.mentions_field(e, "current_peer_id") and lib.mentions_field(e, "run_parameters")


def call_request_site(ctx, F, want=("writers", "guard", "pair")):
    """The single place where a call request is issued (ResolvedCall::execute) and its guards.
    Shared by C05 / C06 / C19."""
    ex = F.fn("resolved_call::ResolvedCall::execute")
    p = Prov(ex)
    reach, _ = F.reachable_fns([F.fn("runner::execute_air")])
    res = {"fn": ex, "prov": p}
    ins = [c for c in ex.calls if c.path.endswith("HashMap::insert") and lib.mentions_field(p.operand(c.args[0]), "call_requests")]
    ctx.floor("R-WRITERS", "call_requests.insert in ResolvedCall::execute", len(ins), 1)
    if not ins:
        return None
    res["insert"] = ins[0]
    if "writers" in want:
        muts = field_mutators(F, "ExecutionCtx", "call_requests", reach)
        allowed = {"ResolvedCall::execute": "issues the request", "ExecutionCtx::new": "constructs empty",
                   "outcome::populate_outcome_from_contexts": "moves the map into the outcome"}
        for o, kinds in sorted(muts.items()):
            ctx.require(o in allowed, "R-WRITERS", "call_requests-mutator:" + o, "%s (%s): %s" % (o, ",".join(sorted(kinds)), allowed.get(o)),
                        "ExecutionCtx.call_requests is now modified (%s) in %s: call requests may be issued outside ResolvedCall::execute"
                        % (",".join(sorted(kinds)), o))
        ctx.require(len(ins) == 1, "R-WRITERS", "call_requests-single-insert", "exactly one insertion site",
                    "ResolvedCall::execute now inserts into call_requests at %d sites" % len(ins))
    i = ins[0]
    if "guard" in want:
        # (i) should_execute true edge
        g = None
        for br, rel in lib.guards_of(ex, i.bb, p):
            if rel and rel[0] == "bool" and br.expr[0] == "call" and br.expr[1].endswith("StateDescriptor::should_execute") and rel[2] is True:
                g = br
        ctx.require(g is not None, "R-GUARD", "request:should-execute", "insertion only on the true edge of state.should_execute()",
                    "the call-request insertion is reachable without state.should_execute() being true",
                    sample={"site": i.loc()})
        if g is not None:
            se = g.expr[2][0]
            ctx.require(lib.mentions_call(se, "prepare_current_executed_state"), "R-FLOW", "request:state-from-trace",
                        "the state asked is the one computed from the merged trace", "should_execute is asked of `%s`" % show(se)[:160])
        # (ii) peer equality
        eg = eq_guard(ex, p, i.bb, lambda e: lib.mentions_field(e, "peer_pk") and lib.mentions_field(e, "tetraplet"), is_current_peer)
        ctx.require(eg is not None, "R-GUARD", "request:self-addressed", "insertion only where %s" % eg,
                    "the call-request insertion is not guarded by tetraplet.peer_pk == run_parameters.current_peer_id",
                    sample={"guard": eg})
    if "pair" in want:
        key = p.operand(i.args[1])
        ctx.require(key[0] == "call" and key[1].endswith("ExecutionCtx::next_call_request_id"), "R-FLOW", "request:key-is-fresh-id",
                    "request key := exec_ctx.next_call_request_id()", "the call request is keyed by `%s`" % show(key))
        ends = [c for c in ex.calls_to("TraceHandler::meet_call_end") if c.bb in ex.reach_after(i.bb)]
        ok = bool(ends) and ex.must_pass(i.target, [c.bb for c in ends])
        ctx.require(ok, "R-PAIR", "request:pending-mark", "every path from the insertion to return records meet_call_end",
                    "after inserting a call request ResolvedCall::execute can return without recording the pending state (meet_call_end)")
        for c in ends:
            st = p.operand(c.args[1])
            good = (st[0] == "call" and st[1].endswith("sent_peer_id_with_call_id") and is_current_peer(st[2][0])
                    and st[2][1][0] == "call" and key[0] == "call" and st[2][1][3] is key[3])
            ctx.require(good, "R-PAIR", "request:pending-mark-shape",
                        "persisted state = RequestSentBy(current_peer_id, same id as the request key)",
                        "the state recorded after issuing a request is `%s`, expected sent_peer_id_with_call_id(current_peer_id, <the request's id>)"
                        % show(st)[:200], sample={"state": show(st)[:200]})
        res["ends"] = ends
    return res


def pending_call_blocks_sequence(ctx, F):
    """C05 / C16: a call that cannot complete in this run stops what follows it.  Seq runs its second child only when
    the subgraph is complete, so every way a call instruction can end WITHOUT a result must mark the subgraph
    incomplete: own request still pending (`not_ready`), call addressed elsewhere and already requested
    (`cant_execute_now`), a request just issued, a particle just forwarded; a re-emitted failure does so before
    returning its error.  A state that restores a result (`executed`) must not."""
    h = F.fn("prev_result_handler::handle_prev_state")
    rows = {}
    inc_bbs = {c.bb for c, _ in lib.forwarding_calls(F, h, "ExecutionCtx::make_subgraph_incomplete")}     # directly or through a thin helper
    for st in lib.enumerate_paths(h, max_paths=60000):
        ctors = tuple(c.path.split("::")[-1] for c in st.calls if "StateDescriptor::" in c.path)
        res = lib.path_result(h, st)
        inc = any(c.bb in inc_bbs for c in st.calls)
        if res == "Ok" and ctors:
            rows.setdefault(ctors[-1], set()).add(inc)
        elif res == "Err" and lib.path_calls(st, "record_call_cid") and not any(lib.is_from_residual(c.path) for c in st.calls[-2:]):
            rows.setdefault("Err(re-emitted failure)", set()).add(inc)
    want = {"not_ready": {True}, "cant_execute_now": {True}, "can_execute_now": {False}, "executed": {False}, "Err(re-emitted failure)": {True}}
    ctx.require(rows == want, "R-TABLE", "incomplete:handle_prev_state", "not_ready / cant_execute_now / re-emitted failure mark the subgraph incomplete; executed / can_execute_now do not",
                "handle_prev_state marks the subgraph incomplete as %s, expected %s: a call without a result would no longer stop the instructions sequenced after it"
                % ({k: sorted(v) for k, v in rows.items()}, {k: sorted(v) for k, v in want.items()}), sample={"table": {k: sorted(v) for k, v in rows.items()}})
    ex = F.fn("resolved_call::ResolvedCall::execute")
    ins = [c for c in ex.calls if c.path.endswith("HashMap::insert")]
    mk = ex.calls_to("ExecutionCtx::make_subgraph_incomplete")
    ok = bool(ins) and bool(mk) and all(ex.must_pass(i.target, [m.bb for m in mk]) for i in ins)
    ctx.require(ok, "R-PAIR", "incomplete:request-issued", "after issuing a call request every path marks the subgraph incomplete",
                "ResolvedCall::execute can return after issuing a call request without marking the subgraph incomplete")
    hr = F.fn("call_result_setter::handle_remote_call")
    mk = hr.calls_to("ExecutionCtx::make_subgraph_incomplete")
    ctx.require(len(mk) >= 1 and all(hr.must_pass(0, [m.bb for m in mk]) for _ in (0,)), "R-PAIR", "incomplete:forwarded", "handle_remote_call always marks the subgraph incomplete",
                "handle_remote_call can return without marking the subgraph incomplete")


def result_recorded_once(ctx, F):
    """C05 / C02: a host result consumed in this run leaves exactly one state in the trace — Executed on success, Failed on
    either failure path (service error, unparsable result) — so the produced data contains everything executed."""
    # update_state_with_service_result: every Ok path records exactly one meet_call_end
    u = F.fn("prev_result_handler::update_state_with_service_result")
    nOk = 0
    bad = []
    for st in lib.enumerate_paths(u, max_paths=60000):
        if lib.path_result(u, st) == "Ok":
            nOk += 1
            n = len(lib.path_calls(st, "TraceHandler::meet_call_end"))
            if n != 1:
                bad.append(n)
    ctx.require(nOk >= 1 and not bad, "R-PAIR", "results:ok-records-once", "every Ok path of update_state_with_service_result records exactly one state",
                "update_state_with_service_result has Ok paths recording %s states" % bad)
    for name in ("handle_service_error", "try_to_service_result"):
        f = F.fn("prev_result_handler::" + name)
        errs = []
        for st in lib.enumerate_paths(f, max_paths=60000):
            if lib.path_result(f, st) == "Err" and lib.path_calls(st, "track_service_result") and \
                    not any(lib.is_from_residual(c.path) for c in st.calls):
                errs.append(len(lib.path_calls(st, "TraceHandler::meet_call_end")))
        ctx.require(errs and all(n == 1 for n in errs), "R-PAIR", "results:%s-records-failed" % name,
                    "%s: the catchable failure path records exactly one Failed state" % name,
                    "%s: failure paths record %s states" % (name, errs))
