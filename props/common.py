"""Clauses shared by several properties."""
from rules import lib
from rules.lib import Prov, show, walk

GUARDED_STEPS = [
    # callee suffix, minimum number of call sites in execute_air_impl
    ("sizes_limits_check::check_against_size_limits", 1),
    ("preparation::parse_data", 1),
    ("verification_step::verify", 1),
    ("preparation::prepare", 1),
    ("signing_step::sign_produced_cids", 1),
]


def farewell_sites(ctx, F, only=None):
    """R-FLOW/R-GUARD: in execute_air_impl the Err edge of every guarded step leads to
    `return Err(from_uncatchable_error(raw_prev_data, <that step's error>, ..))`, where the data
    argument is the untouched `raw_prev_data` parameter."""
    ex = F.fn("runner::execute_air_impl")
    p = Prov(ex)
    fw = ex.calls_to("farewell_step::outcome::from_uncatchable_error")
    ctx.floor("R-FLOW", "from_uncatchable_error sites in execute_air_impl", len(fw), 7)
    # raw_prev_data is never written / mutably borrowed
    pidx = [i for i in range(1, ex.argc + 1) if ex.local_name(i) == "raw_prev_data"]
    if not ctx.require(len(pidx) == 1, "R-FLOW", "farewell:param", "parameter raw_prev_data present",
                       "execute_air_impl no longer has a raw_prev_data parameter"):
        return
    pl = pidx[0]
    writes = []
    for bi, si, s in ex.stmts():
        if s["lhs"]["l"] == pl:
            writes.append("bb%d assign" % bi)
        if s["rv"]["k"] in ("ref", "rawptr") and s["rv"]["mut"] and s["rv"]["place"]["l"] == pl:
            writes.append("bb%d &mut" % bi)
    for c in ex.calls:
        if c.dest["l"] == pl:
            writes.append("bb%d call-dest" % c.bb)
    ctx.require(not writes, "R-FLOW", "farewell:prev-immutable", "raw_prev_data is never written or mutably borrowed",
                "raw_prev_data is modified in execute_air_impl (%s)" % writes)
    for name, floor in GUARDED_STEPS:
        if only and name not in only:
            continue
        steps = ex.calls_to(name)
        ctx.floor("R-GUARD", "%s call in execute_air_impl" % name, len(steps), floor)
        for i, st in enumerate(steps):
            edges = lib.result_edges(ex, st)
            err = edges.get("err")
            if not ctx.require(err is not None, "R-GUARD", "farewell:%s#%d:inspected" % (name, i),
                               "result of %s is matched" % name,
                               "the result of %s in execute_air_impl is not inspected (error ignored?)" % name):
                continue
            # from err edge: every path to return passes a from_uncatchable_error site
            fw_bbs = [c.bb for c in fw if c.bb in ex.reach_from(err)]
            ok = bool(fw_bbs) and ex.must_pass(err, fw_bbs)
            ctx.require(ok, "R-MUST", "farewell:%s#%d:err-to-farewell" % (name, i),
                        "Err edge of %s always reaches from_uncatchable_error" % name,
                        "an error of %s can reach the end of execute_air_impl without from_uncatchable_error" % name)
            for c in [c for c in fw if ex.dominates(err, c.bb)]:
                _check_fw_site(ctx, ex, p, c, "%s#%d" % (name, i), want_err=name)
    if not only:
        for j, c in enumerate(fw):
            _check_fw_site(ctx, ex, p, c, "site#%d" % j, want_err=None)


def _check_fw_site(ctx, ex, p, c, label, want_err):
    d = p.operand(c.args[0])
    ctx.require(d[0] == "param" and d[1] == "raw_prev_data", "R-FLOW", "farewell:%s:data-is-prev" % label,
                "data argument is the caller's raw_prev_data",
                "from_uncatchable_error at %s is given `%s` as data, expected the untouched raw_prev_data" % (c.loc().split(":")[0], show(d)),
                sample={"site": c.loc(), "data": show(d)})
    if want_err:
        e = p.operand(c.args[1])
        ctx.require(e[0] == "err" and lib.mentions_call(e, want_err), "R-FLOW", "farewell:%s:error-is-steps" % label,
                    "error argument is that step's own error",
                    "from_uncatchable_error after %s reports `%s`" % (want_err, show(e)[:200]))
    # the outcome is returned as Err(outcome): the call's destination flows into _0's Err aggregate
    e0 = p.local(0)
    wrapped = any(s[0] == "agg" and s[2] == "Err" and any(x[0] == "call" and x[3] is c for x in walk(s)) for s in walk(e0))
    ctx.require(wrapped, "R-FLOW", "farewell:%s:returned" % label, "outcome is what the function returns",
                "the outcome built by from_uncatchable_error at %s is not the returned value" % c.loc())
