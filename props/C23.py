"""C23 — the parser is total and accepts only well-scoped scripts (DESIGN §4/C23)."""
import re

from rules import lib, facts
from rules.facts import suffix_match
from rules.lib import Prov, show, walk
from props import census, C01

LEVEL = ("Mechanism level: the C01 panic census restricted to code reachable from air_parser::parse; parse returns Ok "
         "only on the `errors.is_empty()` edge after the validator's findings were appended, and Error AST nodes are only "
         "built by actions that record an error; every grammar action that builds an instruction calls a validator "
         "method; type-derived coverage obligations: every variable-bearing field of every instruction AST type, and every "
         "variable-bearing variant payload of the argument enums, is read by the validator (stream/map names exempt by "
         "language rule); finalize runs all checks. The scoping semantics of contains_variable itself is not decided."
         " Added: definition strictly before use (both span comparisons strict); every deferred use is judged (no first-value-only MultiMap walk) — today two known findings.")

VARIABLE_TYPES = ("values::Scalar<", "values::ScalarWithLambda<", "values::CanonStream<", "values::CanonStreamWithLambda<", "values::CanonStreamMap<",
                  "values::CanonStreamMapWithLambda<", "values::ImmutableVariable<", "values::ImmutableVariableWithLambda<", "ImmutableValue<", "ApArgument<",
                  "ResolvableToPeerIdVariable<", "ResolvableToStringVariable<", "StreamMapKeyClause<", "FoldScalarIterable<", "LambdaAST<", "InstructionErrorAST<",
                  "Triplet<", "CallOutputValue<", "ApResult<", "NewArgument<")
EXEMPT_TYPES = ("values::Stream<", "values::StreamMap<")   # an undefined stream is an empty stream (language rule)
ARG_ENUMS = ("instructions::Fail", "instruction_arguments::ApArgument", "instruction_arguments::ImmutableValue", "instruction_arguments::ResolvableToPeerIdVariable",
             "instruction_arguments::ResolvableToStringVariable", "instruction_arguments::StreamMapKeyClause", "instruction_arguments::FoldScalarIterable",
             "instruction_arguments::CallOutputValue", "instruction_arguments::ApResult", "instruction_arguments::NewArgument")
INSTR_VALIDATOR = {
    "Call": "met_call", "Canon": "met_canon", "CanonMap": "met_canon_map", "CanonStreamMapScalar": "met_canon_map_scalar", "Ap": "met_ap", "ApMap": "met_ap_map",
    "New": "met_new", "Fail": "met_fail_literal", "FoldScalar": "met_fold_scalar", "FoldStream": "meet_fold_stream", "FoldStreamMap": "meet_fold_stream_map",
    "Next": "met_next", "Match": "met_match", "MisMatch": "met_mismatch",
    "Seq": "met_merging_instr", "Par": "met_merging_instr", "Never": "met_simple_instr", "Null": "met_simple_instr", "Xor": "met_xoring_instr",
}


def is_var_type(t):
    return any(x in t for x in VARIABLE_TYPES)


def check(ctx):
    F = ctx.facts("prod")
    ctx.clause("R-REACH panic census restricted to code reachable from air_parser::parse (same table as C01)")
    ctx.clause("R-TABLE/R-GUARD parse: Ok only if errors.is_empty() after extend(validator.finalize()); Error nodes only with a recorded error")
    ctx.clause("R-SIBLING every grammar action building an Instruction variant calls its validator method")
    ctx.clause("R-COVER type-derived validator coverage of variable-bearing fields and enum payloads")
    ctx.clause("R-MUST finalize runs all checks")

    parse = F.fn("air_parser::parser::air_parser::parse")
    cb = [f for f in census.external_trait_impl_fns(F) if f.crate in ("air_parser", "air_lambda_parser", "air_lambda_ast")]
    reach, parent = F.reachable_fns([parse] + cb)
    ctx.analysed.setdefault("prod", {})["parser_reachable_functions"] = len(reach)
    ctx.floor("R-REACH", "functions reachable from parse", len(reach), 300)
    sites, n_auto = C01.evaluate_sites(ctx, F, reach, parent, C01.load_table())
    ctx.floor("R-REACH", "panic-capable sites in parser-reachable code", len(sites), 100)

    # parser totality also needs bounded recursion: the drop/parse row of the recursion census belongs to this property too
    for r in C01.load_table()["recursion"]:
        if r["id"] == "ast-drop-and-parse":
            if r["disposition"] == "finding":
                ctx.violation("R-REACH", "recursion:" + r["id"], r["reason"], {})
            else:
                ctx.ok("R-REACH", "recursion:" + r["id"], r["reason"])

    # 2. parse result
    cl = [c for c in F.closures_of(parse) if c.id.count("{closure#") == 1]
    pc = None
    for c in cl:
        if c.calls_to("VariableValidator::finalize"):
            pc = c
    if ctx.require(pc is not None, "R-TABLE", "parse:anchor", "parse closure found", "the body of parse (PARSER.with closure) was not found"):
        pp = Prov(pc)
        fin = pc.calls_to("VariableValidator::finalize")
        ext = [c for c in pc.calls if c.path.endswith("::extend")]
        emp = [c for c in pc.calls if c.path.endswith("Vec::is_empty")]
        pr = [c for c in pc.calls if c.path.endswith("AIRParser::parse")]
        ok = len(fin) == 1 and len(ext) == 1 and len(emp) == 1 and len(pr) == 1
        ctx.require(ok, "R-TABLE", "parse:anchors", "parser.parse, validator.finalize, errors.extend, errors.is_empty each once", "parse body anchors changed")
        if ok:
            ctx.require(lib.mentions_call(pp.operand(ext[0].args[1]), "VariableValidator::finalize"), "R-FLOW", "parse:extend-validator", "errors.extend(validator.finalize())", "the validator's errors are not appended to the error list")
            ctx.require(pc.dominates(pr[0].bb, fin[0].bb) and pc.dominates(ext[0].bb, emp[0].bb), "R-MUST", "parse:order", "parse -> finalize -> extend -> is_empty", "parse no longer checks the error list after appending the validator's errors")
            # same `errors` vector everywhere
            e_parse = show(pp.operand(pr[0].args[2]))
            e_ext = show(pp.operand(ext[0].args[0]))
            e_emp = show(pp.operand(emp[0].args[0]))
            ctx.require(e_parse == e_ext == e_emp, "R-FLOW", "parse:same-errors", "one error list shared by grammar, validator and the final test", "different error lists: %s / %s / %s" % (e_parse, e_ext, e_emp))
            rows = {}
            for st in lib.enumerate_paths(pc, pp, max_paths=60000):
                var = st.variants.get((pr[0].dest["l"], ()))
                empv = None
                for br, val in st.conds:
                    if not isinstance(br, str) and br.expr[0] == "call" and br.expr[1].endswith("Vec::is_empty"):
                        empv = val
                e = lib.PathProv(pc, st.blocks).local(0)
                rows.setdefault((var, empv), set()).add(e[2] if e[0] == "agg" else show(e)[:30])
            want = {("Ok", True): {"Ok"}, ("Ok", False): {"Err"}, ("Err", None): {"Err"}}
            ctx.require(rows == want, "R-TABLE", "parse:result-table", "Ok(ast) iff grammar Ok and the error list is empty", "parse result table is %s" % {str(k): sorted(v) for k, v in rows.items()},
                        sample={"table": {str(k): sorted(v) for k, v in rows.items()}})
    # Error nodes
    acts = [f for f in F.fns.values() if f.crate == "air_parser" and re.search(r"::air::__action\d+$", f.path)]
    ctx.floor("R-SIBLING", "grammar actions", len(acts), 150)
    built = {}
    n_err = 0
    for f in acts:
        for bi, si, s in f.stmts():
            rv = s["rv"]
            if rv["k"] == "agg" and rv.get("kind") == "adt" and rv["adt"].endswith("ast::instructions::Instruction"):
                vcalls = [c.path.split("::")[-1] for c in f.calls if "VariableValidator::" in c.path]
                pushes = [c for c in f.calls if c.path.endswith("Vec::push")]
                built.setdefault(rv["variant"], []).append((f, vcalls, pushes))
    for var, lst in sorted(built.items()):
        for f, vcalls, pushes in lst:
            if var == "Error":
                n_err += 1
                fp = Prov(f)
                ok = len(pushes) >= 1 and any(fp.operand(c.args[0])[0] == "param" for c in pushes) and all(all(f.dominates(c.bb, r) for r in f.returns) for c in pushes)
                ctx.require(ok, "R-GUARD", "error-node:" + f.path.split("::")[-1], "Instruction::Error is built only together with errors.push(..)", "%s builds Instruction::Error without recording an error" % f.path)
            else:
                want = INSTR_VALIDATOR.get(var)
                ctx.require(want is not None and want in vcalls, "R-SIBLING", "action:" + var, "%s action calls validator.%s" % (var, want),
                            "the grammar action building Instruction::%s (%s) calls %s, expected validator.%s" % (var, f.path.split("::")[-1], vcalls, want))
    variants = [v["name"] for v in F.adt("ast::instructions::Instruction")["variants"]]
    ctx.require(set(built) == set(variants), "R-SIBLING", "action:all-variants", "every Instruction variant is built by some action (%d)" % len(built), "variants without an action: %s" % sorted(set(variants) - set(built)))
    ctx.floor("R-GUARD", "Error-node actions", n_err, 1)
    va = [f for f in F.fns.values() if f.crate in ("air_parser", "air_lambda_parser") and any(s["rv"]["k"] == "agg" and s["rv"].get("kind") == "adt" and s["rv"]["adt"].endswith("ValueAccessor") and s["rv"]["variant"] == "Error" for _, _, s in f.stmts())]
    for f in va:
        pushes = [c for c in f.calls if c.path.endswith("Vec::push")]
        ctx.require(len(pushes) >= 1, "R-GUARD", "error-accessor:" + f.path.split("::")[-1], "ValueAccessor::Error built together with errors.push", "%s builds ValueAccessor::Error without recording an error" % f.path)

    # 4. coverage
    vfns = [f for f in F.fns.values() if "validator::VariableValidator::" in f.path and f.crate == "air_parser"]
    vroots = {n: F.fn("validator::VariableValidator::" + n) for n in set(INSTR_VALIDATOR.values())}
    def reads_under(root):
        r, _ = F.reachable_fns([root])
        return {i for i in r if F.fns[i].crate in ("air_parser", "air_lambda_ast")}
    accesses = {}   # (adt, field, variant) -> set(fn ids)
    for f in F.fns.values():
        if f.crate != "air_parser":
            continue
        def note(p):
            for e in p["p"]:
                if isinstance(e, dict) and "f" in e and e.get("on") not in ("tuple", "closure", "?"):
                    accesses.setdefault((e["on"], e["f"], e.get("v")), set()).add(f.id)
        for bi, si, s in f.stmts():
            note(s["lhs"])
            rv = s["rv"]
            if rv["k"] in ("ref", "rawptr", "discr"):
                note(rv["place"])
            else:
                for o in facts.rv_operands(rv):
                    p = facts.op_place(o)
                    if p:
                        note(p)
        for c in f.calls:
            for o in c.args:
                p = facts.op_place(o)
                if p:
                    note(p)
    n_ob = 0
    for instr, vname in sorted(INSTR_VALIDATOR.items()):
        adt = F.adts.get("air_parser::ast::instructions::" + instr)
        if adt is None or adt["kind"] != "Struct":
            continue
        under = reads_under(vroots[vname])
        for fld in adt["variants"][0]["fields"]:
            t = fld["ty"]
            if any(x in t for x in EXEMPT_TYPES):
                ctx.ok("R-COVER", "field-exempt:%s.%s" % (instr, fld["name"]), "stream / stream-map name: exempt by language rule (undefined stream = empty stream)")
                continue
            if not is_var_type(t):
                continue
            n_ob += 1
            readers = accesses.get((adt["path"], fld["name"], None), set()) & under
            ctx.require(bool(readers), "R-COVER", "field:%s.%s" % (instr, fld["name"]), "%s.%s is read by validator.%s" % (instr, fld["name"], vname),
                        "the validator never visits %s.%s (type %s): a script using an undefined variable there is accepted" % (instr, fld["name"], t.replace("air_parser::ast::", "")),
                        sample={"instruction": instr, "field": fld["name"], "readers": sorted(F.fns[i].path.split("::")[-1] for i in readers)[:3]})
    all_under = set()
    for r in vroots.values():
        all_under |= reads_under(r)
    for en in ARG_ENUMS:
        adt = F.adts.get("air_parser::ast::" + en)
        if not ctx.require(adt is not None, "R-COVER", "enum-anchor:" + en, "argument enum %s found" % en, "argument enum %s not found" % en):
            continue
        for v in adt["variants"]:
            for fld in v["fields"]:
                t = fld["ty"]
                if any(x in t for x in EXEMPT_TYPES) or not is_var_type(t):
                    continue
                n_ob += 1
                readers = accesses.get((adt["path"], fld["name"], v["name"]), set()) & all_under
                ctx.require(bool(readers), "R-COVER", "payload:%s::%s" % (en.split("::")[-1], v["name"]), "payload of %s::%s is read by the validator" % (en.split("::")[-1], v["name"]),
                            "the validator never looks inside %s::%s (%s): variables used there are not checked to be defined" % (en.split("::")[-1], v["name"], t.replace("air_parser::ast::", "")),
                            sample={"enum": en, "variant": v["name"]})
    ctx.floor("R-COVER", "coverage obligations derived from AST types", n_ob, 40)
    # uses reach met_variable_name, definitions reach met_variable_name_definition
    for n, tgt in (("met_scalar", "met_variable_name"), ("met_scalar_wl", "met_variable_name"), ("met_canon_stream", "met_variable_name"), ("met_canon_stream_wl", "met_variable_name"),
                   ("met_canon_stream_map", "met_variable_name"), ("met_canon_stream_map_wl", "met_variable_name"), ("met_variable", "met_variable_name"), ("met_variable_wl", "met_variable_name"),
                   ):
        f = F.fn("validator::VariableValidator::" + n)
        r, _ = F.reachable_fns([f])
        t = F.fn("validator::VariableValidator::" + tgt)
        ctx.require(t.id in r, "R-COVER", "leaf:%s" % n, "%s reaches %s" % (n, tgt), "validator.%s no longer registers the name via %s" % (n, tgt))
    mi = F.fn("validator::VariableValidator::met_iterator_definition")
    ins = [show(Prov(mi).operand(c.args[0])) for c in mi.calls if c.path.endswith("::insert")]
    ctx.require(len(ins) == 1 and "met_iterator_definitions" in ins[0], "R-COVER", "leaf:met_iterator_definition", "iterator definitions are registered in met_iterator_definitions",
                "met_iterator_definition registrations are %s" % ins)
    cv = F.fn("validator::VariableValidator::contains_variable")
    srcs = {s_[2] for s_ in walk(Prov(cv).local(0)) if s_[0] == "field"} | {f_[1] for c in cv.calls for a in c.args for f_ in lib.place_fields(facts.op_place(a) or {"p": []})}
    reads = {f for (a, f, v), ids in accesses.items() if cv.id in ids}
    ctx.require({"met_variable_definitions", "met_iterator_definitions"} <= reads, "R-COVER", "leaf:contains_variable", "a use is resolved against both scalar and iterator definitions",
                "contains_variable reads %s" % sorted(reads))
    # "defined EARLIER": a use is covered only by a definition whose span is strictly smaller than the span of the using
    # instruction — both comparisons in contains_variable are strict `<` (with `<=` an instruction's own output would count
    # as an earlier definition of the name it reads)
    ctx.clause("R-OP contains_variable: definition span strictly before the use span (both comparisons are `<`, definition on the left)")
    cmps = []
    for g_, p_ in lib.family(F, cv):
        for c_ in g_.calls:
            if "core::cmp" in c_.path and c_.path.split("::")[-1] in ("lt", "le", "gt", "ge", "eq", "ne") and any("span::Span" in t for t in c_.atys):
                a0, a1 = p_.operand(c_.args[0]), p_.operand(c_.args[1])
                use_side = [i for i, a in enumerate((a0, a1)) if lib.mentions_param(a, "key_span")]
                cmps.append((c_.path.split("::")[-1], use_side))
    okc = len(cmps) == 2 and all((op == "lt" and us == [1]) or (op == "gt" and us == [0]) for op, us in cmps)
    ctx.require(okc, "R-OP", "leaf:strictly-earlier", "both span comparisons are `definition < use`", "contains_variable compares spans as %s (expected two strict `definition < use` tests): a name defined by the very instruction that reads it, or later, would count as defined" % cmps,
                sample={"comparisons": cmps})
    for n in ("met_scalar_wl", "met_canon_stream_wl", "met_canon_stream_map_wl", "met_variable_wl"):
        f = F.fn("validator::VariableValidator::" + n)
        r, _ = F.reachable_fns([f])
        ctx.require(F.fn("validator::VariableValidator::met_lambda").id in r, "R-COVER", "leaf-lambda:%s" % n, "%s visits the lens (met_lambda)" % n, "validator.%s no longer visits the lens" % n)
    # 5. finalize
    fin = F.fn("validator::VariableValidator::finalize")
    checks = ["check_undefined_variables", "check_undefined_iterables", "check_multiple_next_in_fold", "check_new_on_iterators", "check_iterator_for_multiple_definitions",
              "check_for_unsupported_map_keys", "check_for_unsupported_literal_errcodes", "check_after_next_instr"]
    for c in checks:
        cs = fin.calls_to("ValidatorErrorBuilder::" + c)
        ctx.require(len(cs) == 1 and all(fin.dominates(cs[0].bb, r) for r in fin.returns), "R-MUST", "finalize:" + c, "finalize always runs %s" % c, "finalize no longer (always) runs %s" % c)
    b = fin.calls_to("ValidatorErrorBuilder::build")
    ctx.require(len(b) == 1 and lib.err_propagates(fin, b[0]) or (len(b) == 1 and any(s[0] == "call" and s[3] is b[0] for s in walk(Prov(fin).local(0)))), "R-MUST", "finalize:returns-built", "finalize returns the built error list", "finalize does not return the built errors")
    # every recorded use is judged: the deferred uses are kept in MultiMaps (one name -> several spans);
    # `MultiMap::iter()` yields only the FIRST span per name, `iter_all()` yields all of them.  A finalize check that
    # walks a multi-valued map with `iter()` silently skips every later use of a name whose first use is fine.
    ctx.clause("R-COVER finalize judges every deferred use: no check walks a name->spans MultiMap with the first-value-only iterator")
    n_walk = 0
    for c in checks:
        f = F.fn("validator::ValidatorErrorBuilder::" + c)
        for f_, cc, p_ in lib.family_calls(F, f, lambda x: "multimap::MultiMap" in x.path and x.path.split("::")[-1] in ("iter", "iter_mut", "iter_all", "iter_all_mut")):
            n_walk += 1
            first_only = cc.path.split("::")[-1] in ("iter", "iter_mut")
            fld = [x[2] for x in walk(p_.operand(cc.args[0])) if x[0] == "field"]
            ctx.require(not first_only, "R-COVER", "finalize:all-uses:" + c, "%s walks %s with iter_all" % (c, fld[:1]),
                        "%s walks the multi-valued map %s with MultiMap::iter(), which yields only the first recorded span of each name: later uses of the same name are never judged"
                        % (c, fld[:1]), sample={"check": c, "map": fld[:1]})
    ctx.floor("R-COVER", "MultiMap walks in finalize checks", n_walk, 3)
    mn = F.fn("validator::VariableValidator::met_next")
    ins = [show(Prov(mn).operand(c.args[0])) for c in mn.calls if c.path.endswith("::insert")]
    ctx.require(any("unresolved_iterables" in x for x in ins) and any("multiple_next_candidates" in x for x in ins), "R-MUST", "met_next:registers",
                "met_next registers the iterator in unresolved_iterables and multiple_next_candidates", "met_next registrations are %s" % ins)
