"""C21 — data from unsupported interpreter versions is rejected (DESIGN §4/C21)."""
import re

from rules import lib
from rules.lib import Prov, show, walk
from props import common

LEVEL = ("Whole decision procedure of the version gate, structurally: the comparison operator and operands of "
         "check_version_compatibility, its position in parse_data (argument = the *current* envelope's versions; "
         "dominates both inner-data decodes), the empty-slice branch of try_to_envelope, the value of the minimal "
         "version constant, and the error exit returning previous data (shared with C02). Version ordering itself is "
         "semver's Ord (trusted)."
         " Added: the compared operands are whole semver::Version values compared by semver's ordering.")


def semver_tuple(s):
    m = re.match(r"^(\d+)\.(\d+)\.(\d+)$", s or "")
    return tuple(int(x) for x in m.groups()) if m else None


def check(ctx):
    F = ctx.facts("prod")
    ctx.clause("R-OP check_version_compatibility errs iff versions.interpreter_version < min_supported_version()")
    ctx.clause("R-FLOW/R-GUARD parse_data: gate applied to current envelope, dominates both try_to_data")
    ctx.clause("R-TABLE try_to_envelope: empty -> Ok(new(min_version)) without decoding")
    ctx.clause("R-CONST minimal version constant parses and is <= package version")
    ctx.clause("R-FLOW error exit returns prev data (execute_air_impl farewell)")

    # 1. comparison
    f = F.fn("preparation::check_version_compatibility")
    p = Prov(f)
    brs = [b for b in lib.bool_branches(f, p) if b.form[0] != "bool"]
    if ctx.require(len(brs) == 1, "R-OP", "cvc:one-compare", "exactly one comparison",
                   "check_version_compatibility has %d comparisons, expected 1" % len(brs)):
        br = brs[0]
        # which edge builds the Err
        err_bbs = [bi for bi, si, s in f.stmts() if s["lhs"]["l"] == 0 and s["rv"]["k"] == "agg" and s["rv"]["variant"] == "Err"]
        ok_bbs = [bi for bi, si, s in f.stmts() if s["lhs"]["l"] == 0 and s["rv"]["k"] == "agg" and s["rv"]["variant"] == "Ok"]
        if ctx.require(len(err_bbs) == 1 and len(ok_bbs) == 1, "R-TABLE", "cvc:exits", "one Err and one Ok exit",
                       "check_version_compatibility no longer has exactly one Err and one Ok exit"):
            edge = None
            for tgt in (br.true_bb, br.false_bb):
                if lib.edge_dominates(f, br.bb, tgt, None, err_bbs[0]):
                    edge = tgt
            rel = br.holds_on(edge) if edge is not None else None
            # the operands are the WHOLE versions (a semver::Version each — not a projection such as (major, minor, patch),
            # which would ignore the pre-release tag), compared by semver's own ordering
            def whole_version(e):
                e = lib.strip(e)
                return e[0] == "field" and e[2] == "interpreter_version" and e[1][0] == "param" and e[1][1] == "versions"
            def whole_min(e):
                e = lib.strip(e)
                return e[0] == "call" and e[1].endswith("min_supported_version") and not e[2]
            by_semver = br.expr[0] == "call" and "PartialOrd" in br.expr[1] and all("semver::Version" in t and "(" not in t for t in br.expr[3].atys)
            good = (rel is not None and rel[0] == "<" and whole_version(rel[1]) and whole_min(rel[2]) and by_semver)
            ctx.require(good, "R-OP", "cvc:lt-min",
                        "Err edge iff %s" % ("%s %s %s" % (show(rel[1]), rel[0], show(rel[2])) if rel else "?"),
                        "check_version_compatibility rejects when `%s`, expected `versions.interpreter_version < min_supported_version()`"
                        % ("%s %s %s" % (show(rel[1]), rel[0], show(rel[2])) if rel else "no guarded edge"),
                        sample={"fn": f.path, "loc": f.loc()})
            # the other edge reaches Ok only
            other = br.false_bb if edge == br.true_bb else br.true_bb
            ctx.require(other is not None and err_bbs[0] not in f.reach_from(other), "R-TABLE", "cvc:ok-edge",
                        "the complementary edge cannot reach the Err exit",
                        "the non-error edge of the version comparison can still reach the Err exit")
            e0 = p.local(0)
            errs = [s for s in walk(e0) if s[0] == "agg" and s[1].endswith("PreparationError")]
            ctx.require(len(errs) == 1 and errs[0][2] == "UnsupportedInterpreterVersion", "R-TABLE", "cvc:error-kind",
                        "error is UnsupportedInterpreterVersion", "version gate returns a different error: %s" % show(e0))

    # 2. parse_data
    pd = F.fn("preparation::parse_data")
    pp = Prov(pd)
    env_calls = pd.calls_to("preparation::try_to_envelope")
    cvc = pd.calls_to("preparation::check_version_compatibility")
    ttd = pd.calls_to("preparation::try_to_data")
    ctx.floor("R-GUARD", "try_to_envelope calls in parse_data", len(env_calls), 2)
    ctx.floor("R-GUARD", "try_to_data calls in parse_data", len(ttd), 2)
    if ctx.require(len(cvc) == 1, "R-MUST", "parse_data:gate-present", "one check_version_compatibility call",
                   "parse_data calls check_version_compatibility %d times, expected once" % len(cvc)):
        g = cvc[0]
        a = pp.operand(g.args[0])
        good = (lib.mentions_field(a, "versions") and lib.mentions_param(a, "current_data")
                and not lib.mentions_param(a, "prev_data") and lib.mentions_call(a, "try_to_envelope"))
        ctx.require(good, "R-FLOW", "parse_data:gate-on-current",
                    "gate argument = try_to_envelope(current_data)?.versions",
                    "parse_data checks the version of `%s`, expected the current data's envelope versions" % show(a),
                    sample={"arg": show(a)})
        for i, t in enumerate(ttd):
            ctx.require(lib.guarded_by_ok(pd, g, t.bb), "R-GUARD", "parse_data:gate-dominates-decode#%d" % i,
                        "inner data decoded only after the gate returned Ok",
                        "try_to_data (#%d) in parse_data is reachable without a successful version check" % i)
        ctx.require(lib.err_propagates(pd, g), "R-MUST", "parse_data:gate-propagates", "gate error propagated with ?",
                    "the version gate's error is not propagated by parse_data")
        # every Ok return of parse_data passes the gate
        okb = lib.result_edges(pd, g).get("ok")
        ok_rets = [bi for bi, si, s in pd.stmts() if s["lhs"]["l"] == 0 and s["rv"]["k"] == "agg" and s["rv"]["variant"] == "Ok"]
        ctx.require(okb is not None and ok_rets and all(pd.dominates(okb, b) for b in ok_rets), "R-MUST", "parse_data:ok-needs-gate",
                    "every Ok(ParsedDataPair) is dominated by the gate's Ok edge",
                    "parse_data can return Ok without passing the version gate")
    # the two decodes use the envelopes' inner_data in order prev, current
    ok_e = [s for s in walk(pp.local(0)) if s[0] == "agg" and s[1].endswith("ParsedDataPair")]
    if ctx.require(len(ok_e) == 1, "R-FLOW", "parse_data:pair", "one ParsedDataPair built", "ParsedDataPair construction changed"):
        fl = ok_e[0][3]
        for name, par in (("prev_data", "prev_data"), ("current_data", "current_data")):
            v = fl.get(name)
            good = v is not None and lib.mentions_param(v, par) and not lib.mentions_param(v, "current_data" if par == "prev_data" else "prev_data") \
                and lib.mentions_call(v, "try_to_data") and lib.mentions_field(v, "inner_data")
            ctx.require(good, "R-FLOW", "parse_data:pair-" + name, "%s := try_to_data(envelope(%s).inner_data)" % (name, par),
                        "ParsedDataPair.%s is built from `%s`" % (name, show(v) if v else None))

    # 3. try_to_envelope
    te = F.fn("preparation::try_to_envelope")
    tp = Prov(te)
    brs = lib.bool_branches(te, tp)
    emp = [b for b in brs if b.expr[0] == "call" and b.expr[1].endswith("::is_empty") and lib.mentions_param(b.expr, "raw_env_data")]
    if ctx.require(len(emp) == 1, "R-TABLE", "tte:is-empty", "branch on raw_env_data.is_empty()",
                   "try_to_envelope no longer branches on raw_env_data.is_empty()"):
        b = emp[0]
        t_true = te.reach_from(b.true_bb)
        t_false = te.reach_from(b.false_bb)
        newc = te.calls_to(lambda c: "InterpreterDataEnvelope" in c.path and c.path.endswith("::new"))
        dec = te.calls_to(lambda c: "InterpreterDataEnvelope" in c.path and c.path.endswith("::try_from_slice"))
        ctx.require(len(newc) == 1 and newc[0].bb in t_true and newc[0].bb not in t_false and
                    lib.mentions_call(tp.operand(newc[0].args[0]), "min_supported_version"),
                    "R-TABLE", "tte:empty-is-min-version", "empty slice -> envelope at the minimal supported version",
                    "try_to_envelope's empty branch no longer builds InterpreterDataEnvelope::new(min_supported_version())")
        ctx.require(len(dec) == 1 and dec[0].bb in t_false and dec[0].bb not in t_true and
                    lib.mentions_param(tp.operand(dec[0].args[0]), "raw_env_data"),
                    "R-TABLE", "tte:nonempty-decodes", "non-empty slice is decoded from the given bytes",
                    "try_to_envelope's non-empty branch no longer decodes raw_env_data")

    # 4. constants
    msv = F.fn("interpreter_versions::min_supported_version")
    mp = Prov(msv)
    e = mp.local(0)
    st = [s for s in walk(e) if s[0] == "static"]
    ctx.require(len(st) == 1 and st[0][1].endswith("MINIMAL_INTERPRETER_VERSION"), "R-FLOW", "const:min-static",
                "min_supported_version() = force(MINIMAL_INTERPRETER_VERSION)",
                "min_supported_version() returns `%s`" % show(e))
    vals = {}
    for name in ("MINIMAL_INTERPRETER_VERSION", "INTERPRETER_VERSION"):
        cl = F.find("interpreter_versions::%s::{closure#0}" % name)
        if not ctx.require(len(cl) == 1, "R-CONST", "const:init-" + name, "initializer closure found", "initializer of %s not found" % name):
            continue
        cp = Prov(cl[0])
        ce = cp.local(0)
        strs = [s for s in walk(ce) if s[0] == "call" and s[1].endswith("from_str")]
        v = strs[0][2][0][2] if strs and strs[0][2][0][0] == "const" else None
        vals[name] = semver_tuple(v)
        ctx.require(vals[name] is not None, "R-CONST", "const:parses-" + name, "%s = %s parses as MAJOR.MINOR.PATCH" % (name, v),
                    "%s initializer `%s` is not a plain semver literal" % (name, show(ce)), sample={"value": v})
    if vals.get("MINIMAL_INTERPRETER_VERSION") and vals.get("INTERPRETER_VERSION"):
        ctx.require(vals["MINIMAL_INTERPRETER_VERSION"] <= vals["INTERPRETER_VERSION"], "R-CONST", "const:min-le-own",
                    "minimal version %s <= own version %s" % (vals["MINIMAL_INTERPRETER_VERSION"], vals["INTERPRETER_VERSION"]),
                    "minimal supported version %s is above this interpreter's own version %s: own output would be rejected"
                    % (vals["MINIMAL_INTERPRETER_VERSION"], vals["INTERPRETER_VERSION"]))

    # 5. error exit returns previous data
    common.farewell_sites(ctx, F, only=["preparation::parse_data"])
