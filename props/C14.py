"""C14 — forged or replayed results from other peers are never accepted (DESIGN §4/C14)."""
import json
import re
import subprocess

from rules import lib, facts
from rules.lib import Prov, show, walk
from props import common

LEVEL = ("Mechanism level, strongest of the set: every clause is a gate an attacker's data must pass. The verification "
         "chain (CID stores verified, verifiers built for both data, current data's signatures verified, multiset merge) "
         "with every error propagated and dominating preparation/execution; production features enable it; every "
         "CID-typed field of the stored aggregates has a check_reference obligation derived from the ADT facts; every "
         "use of a stored service result / canon result is re-verified against the computed call parameters before its "
         "consumers; peers without signature are rejected; salt flows from particle_id on both sides. "
         "Cryptographic soundness and completeness of the tamper catalogue are not decided."
         " Added: reference checks run once per store entry / list element (loop depth), compile-fail witness for the phantom-typed CID, helper- and closure-insensitive formulations.")


def cid_reference_obligations(ctx, F):
    """Obligations derived from the types: every CID-typed field of every aggregate kept in a CidStore is looked up in the
    store of the referenced kind (check_reference, unconditional, error propagated, once per entry / list element), each
    store's own entries are hashed against their CIDs, and CidInfo::verify runs and propagates all steps.  Shared by C14
    (forged references are rejected) and C01 (code after verification may `expect` the references to resolve)."""
    # 4. CID coverage
    cid_info = F.adt("cid_info::CidInfo")
    stores = {}
    for f in cid_info["variants"][0]["fields"]:
        m = re.search(r"CidStore<(.+)>$", f["ty"])
        if m:
            stores[f["name"]] = m.group(1)
    ctx.floor("R-COVER", "CidStore fields of CidInfo", len(stores), 5)
    by_elem = {t: n for n, t in stores.items()}
    # collect verification functions reachable from CidInfo::verify
    root = F.fn("cid_info::CidInfo::verify")
    reach, _ = F.reachable_fns([root])
    vfns = [F.fns[i] for i in reach if F.fns[i].crate == "air_interpreter_data" and "cid_info" in F.fns[i].path]
    refs = []   # (fn, call, receiver store, referenced field chain)
    store_verifies = set()
    for fn in vfns:
        p = Prov(fn)
        for c in fn.calls:
            if c.path.endswith("CidStore::check_reference"):
                recv = p.operand(c.args[0])
                tgt = p.operand(c.args[2])
                fields = [s[2] for s in walk(tgt) if s[0] == "field"]
                iters = [s for s in walk(tgt) if s[0] == "call" and s[1].endswith("CidStore::iter")]
                src_store = None
                for it in iters:
                    fs = [s[2] for s in walk(it) if s[0] == "field"]
                    if fs:
                        src_store = fs[0]
                refs.append((fn, c, recv[2] if recv[0] == "field" else show(recv), fields, src_store))
            if c.path.endswith(("CidStore::verify", "CidStore::verify_raw_value")):
                recv = p.operand(c.args[0])
                if recv[0] == "field":
                    store_verifies.add((recv[2], c.path.split("::")[-1]))
                    ctx.require(lib.err_propagates(fn, c), "R-MUST", "cid:store-verify-propagated:" + recv[2], "%s.%s()? propagated" % (recv[2], c.path.split("::")[-1]),
                                "the result of %s.%s() is not propagated in %s" % (recv[2], c.path.split("::")[-1], fn.path))
    for sname, elem in sorted(stores.items()):
        want = "verify_raw_value" if elem.endswith("RawValue") else "verify"
        ctx.require((sname, want) in store_verifies, "R-COVER", "cid:store-verified:" + sname, "%s.%s() is called under CidInfo::verify" % (sname, want),
                    "CidInfo::verify no longer verifies the %s (hash of each entry against its CID)" % sname)
    # obligations from types
    def cid_fields(adt_path, prefix=()):
        out = []
        a = F.adts.get(adt_path)
        if not a:
            return out
        for v in a["variants"]:
            for f in v["fields"]:
                for m in re.finditer(r"CID<([^<>]+)>", f["ty"]):
                    out.append((prefix + (f["name"],), m.group(1), v["name"] if a["kind"] == "Enum" else None, "Vec<" in f["ty"]))
                for other in F.adts:
                    if f["ty"] == other and other.startswith("air_interpreter_data") and other != adt_path:
                        out += cid_fields(other, prefix + (f["name"],))
        return out
    nob = 0
    for sname, elem in sorted(stores.items()):
        for chain, target, variant, in_list in cid_fields(elem):
            nob += 1
            tstore = by_elem.get(target)
            hit = [r for r in refs if r[2] == tstore and r[4] == sname and all(x in r[3] for x in chain)]
            key = "cid:ref:%s.%s->%s" % (sname, ".".join(chain) + (("@" + variant) if variant else ""), tstore)
            ok = bool(hit) and tstore is not None
            if ok:
                fn, c = hit[0][0], hit[0][1]
                ok = lib.err_propagates(fn, c)
                # no boolean guard may skip the check
                gs = [g for g in lib.guards_of(fn, c.bb) if g[1] is not None]
                ok = ok and not gs
                # once per store entry: a reference held directly by the entry is checked in the loop over the store (depth 1),
                # a reference held in a list of the entry in the loop over that list (depth 2).  Nested deeper, the check would
                # be skipped for entries whose inner list is empty.
                depth = lib.loop_depth(fn, c.bb)
                want_depth = 2 if in_list else 1
                ctx.require(depth == want_depth, "R-COVER", key + ":every-entry", "checked once per %s (loop depth %d)" % ("list element" if in_list else "store entry", want_depth),
                            "the check_reference for %s entries' field %s sits at loop depth %d, expected %d: it no longer runs for every entry (e.g. not for an entry whose list is empty), "
                            "and code that relies on a verified store (`expect(\"cannot happen in a checked CID store\")`) can be reached with a dangling reference"
                            % (sname, ".".join(chain), depth, want_depth))
            ctx.require(ok, "R-COVER", key, "every %s entry's %s is looked up in %s (error propagated, unconditional)" % (sname, ".".join(chain), tstore),
                        "no unconditional, propagated check_reference covers %s entries' field %s (-> %s): a dangling or forged CID reference would be accepted"
                        % (sname, ".".join(chain), tstore or target), sample={"store": sname, "field": ".".join(chain), "target_store": tstore})
    ctx.floor("R-COVER", "CID reference obligations derived from types", nob, 8)
    # the four verify_* steps under CidInfo::verify all propagate and dominate Ok
    rp = Prov(root)
    sub = [c for c in root.calls if c.local and "CidInfo::verify_" in c.path]
    ctx.floor("R-MUST", "verify_* steps in CidInfo::verify", len(sub), 4)
    for c in sub:
        ctx.require(lib.err_propagates(root, c), "R-MUST", "cid:step-propagated:" + c.path.split("::")[-1], "%s()? propagated" % c.path.split("::")[-1],
                    "CidInfo::verify ignores the result of %s" % c.path)
        okb = lib.result_edges(root, c).get("ok")
        ok_exits = [bi for bi, si, s in root.stmts() if s["lhs"]["l"] == 0 and s["rv"]["k"] == "agg" and s["rv"].get("variant") == "Ok"]
        ctx.require(okb is not None and all(root.dominates(okb, b) for b in ok_exits), "R-MUST", "cid:step-dominates-ok:" + c.path.split("::")[-1],
                    "Ok only after %s succeeded" % c.path.split("::")[-1], "CidInfo::verify can return Ok without %s" % c.path)


def check(ctx):
    F = ctx.facts("prod")
    from rules import witness
    ctx.clause("W-CF a content id of one kind cannot be looked up in the store of another kind (compile-fail witness E0308 + compiling twin)")
    witness.check_pair(ctx, "cid-kind", "c14_cid_kind_bad.rs", "c14_cid_kind_ok.rs", ["air_interpreter_cid", "air_interpreter_data"], "E0308",
                       "looking a CID<CanonResultCidAggregate> up in service_result_store")
    ctx.clause("R-MUST chain in verification_step::verify, each error propagated, arguments by provenance")
    ctx.clause("R-GUARD verify(Ok) dominates prepare and execute in execute_air_impl; Err -> prev data")
    ctx.clause("R-CFG air-interpreter default features enable check_signatures and gen_signatures")
    ctx.clause("R-COVER check_reference obligations derived from CID-typed fields; per-store verify calls")
    ctx.clause("R-GUARD resolve_service_info -> verify_call -> consumers; get_canon_result_by_cid -> verify_canon -> epilog")
    ctx.clause("R-OP verify_call / verify_canon error iff mismatch")
    ctx.clause("R-TABLE try_push_cid, DataVerifier::verify, collect_peers_cids_from_trace, CallResult::get_cid")
    ctx.clause("R-FLOW salt = particle_id at verify and at signing")

    # 1. chain
    v = F.fn("verification_step::verify")
    vp = Prov(v)
    is_par = lambda n: (lambda e: e[0] == "param" and e[1] == n)
    steps = [
        ("cid_info.verify", lambda c: c.path.endswith("cid_info::CidInfo::verify"),
         [lambda e: e[0] == "field" and e[2] == "cid_info" and e[1][0] == "param" and e[1][1] == "current_data"], "current_data.cid_info.verify()"),
        ("verifier(prev)", lambda c: c.path.endswith("DataVerifier::new") and lib.mentions_param(vp.operand(c.args[0]), "prev_data"),
         [is_par("prev_data"), is_par("salt")], "DataVerifier::new(prev_data, salt)"),
        ("verifier(current)", lambda c: c.path.endswith("DataVerifier::new") and lib.mentions_param(vp.operand(c.args[0]), "current_data"),
         [is_par("current_data"), is_par("salt")], "DataVerifier::new(current_data, salt)"),
        ("current.verify", lambda c: c.path.endswith("DataVerifier::verify"),
         [lambda e: e[0] == "ok" and lib.mentions_param(e, "current_data") and not lib.mentions_param(e, "prev_data")], "current_data_verifier.verify()"),
        ("merge", lambda c: c.path.endswith("DataVerifier::merge"),
         [lambda e: e[0] == "ok" and lib.mentions_param(e, "prev_data") and not lib.mentions_param(e, "current_data"),
          lambda e: e[0] == "ok" and lib.mentions_param(e, "current_data") and not lib.mentions_param(e, "prev_data")], "prev_verifier.merge(current_verifier)"),
    ]
    calls = lib.check_chain(ctx, v, vp, "verify", steps)
    if calls:
        e0 = vp.local(0)
        oks = [s for s in walk(e0) if s[0] == "agg" and s[2] == "Ok"]
        ctx.require(len(oks) == 1 and oks[0][3]["0"][0] == "ok" and oks[0][3]["0"][1][0] == "call" and oks[0][3]["0"][1][3] is calls[-1],
                    "R-FLOW", "verify:returns-merged-store", "Ok(signature store produced by merge)", "verify returns `%s`" % show(e0)[:200])

    # 2. dominance in execute_air_impl + prev data on error
    ex = F.fn("runner::execute_air_impl")
    ep = Prov(ex)
    vc = ex.calls_to("verification_step::verify")
    if ctx.require(len(vc) == 1, "R-GUARD", "runner:verify-present", "verify called once in execute_air_impl", "verify calls in execute_air_impl: %d" % len(vc)):
        for tgt, pred in (("prepare", "preparation::prepare"), ("execute", lambda c: c.path.endswith("ExecutableInstruction<'i>>::execute")),
                          ("from_success_result", "outcome::from_success_result"), ("from_execution_error", "outcome::from_execution_error")):
            ts = ex.calls_to(pred)
            ctx.floor("R-GUARD", "%s in execute_air_impl" % tgt, len(ts), 1)
            for t in ts:
                ctx.require(lib.guarded_by_ok(ex, vc[0], t.bb), "R-GUARD", "runner:verify-before-" + tgt, "%s only after verify returned Ok" % tgt,
                            "%s in execute_air_impl is reachable without verify having returned Ok" % tgt)
        a = [ep.operand(x) for x in vc[0].args]
        ok = lib.mentions_field(a[0], "prev_data") and lib.mentions_field(a[1], "current_data") and lib.mentions_call(a[0], "parse_data")
        ctx.require(ok, "R-FLOW", "runner:verify-args", "verify(&prev_data, &current_data, ..) of the parsed pair", "verify is given (%s, %s)" % (show(a[0])[:80], show(a[1])[:80]))
        ctx.require(a[2][0] == "field" and a[2][2] == "particle_id" and a[2][1][0] == "param" and a[2][1][1] == "params", "R-FLOW", "salt:verify",
                    "verification salt := params.particle_id", "verify's salt is `%s`" % show(a[2]))
        # the signature store verify returned is the one given to prepare
        pc = ex.calls_to("preparation::prepare")
        if pc:
            s5 = ep.operand(pc[0].args[5])
            ctx.require(s5[0] == "ok" and s5[1][0] == "call" and s5[1][3] is vc[0], "R-FLOW", "runner:store-from-verify",
                        "prepare receives the signature store returned by verify", "prepare's signature store is `%s`" % show(s5)[:160])
    sc = ex.calls_to("signing_step::sign_produced_cids")
    if sc:
        s = ep.operand(sc[0].args[2])
        ctx.require(s[0] == "field" and s[2] == "particle_id", "R-FLOW", "salt:sign", "signing salt := params.particle_id", "sign_produced_cids' salt is `%s`" % show(s))
    common.farewell_sites(ctx, F, only=["verification_step::verify"])
    # DataVerifier keeps and uses the salt it was given
    dn = F.fn("verification::DataVerifier::new")
    e = Prov(dn).local(0)
    aggs = [s for s in walk(e) if s[0] == "agg" and s[1].endswith("DataVerifier")]
    ctx.require(len(aggs) == 1 and aggs[0][3]["salt"][0] == "param" and aggs[0][3]["salt"][1] == "salt", "R-FLOW", "salt:stored", "DataVerifier.salt := salt", "DataVerifier::new mis-stores salt")

    # 3. cargo features
    r = subprocess.run(["cargo", "metadata", "--offline", "--no-deps", "--format-version", "1"], cwd=facts.REPO,
                       stdout=subprocess.PIPE, stderr=subprocess.PIPE, text=True)
    feats = {}
    if r.returncode == 0:
        for p in json.loads(r.stdout)["packages"]:
            feats[p["name"]] = p["features"]
    ai = feats.get("air-interpreter", {})
    dflt = set(ai.get("default", []))
    ok = {"check_signatures", "gen_signatures"} <= dflt and "aquavm-air/check_signatures" in ai.get("check_signatures", []) \
        and "aquavm-air/gen_signatures" in ai.get("gen_signatures", [])
    ctx.require(ok, "R-CFG", "features:production-default", "air-interpreter default = %s, forwarding to aquavm-air" % sorted(dflt),
                "air-interpreter's default features no longer enable aquavm-air/check_signatures and gen_signatures: %s" % ai)

    # 4. CID coverage (type-derived obligations)
    cid_reference_obligations(ctx, F)
    # check_reference: Err iff get() is None
    cr = F.fn("cid_store::CidStore::check_reference")
    cp = Prov(cr)
    g = cr.calls_to("HashMap::get")
    ok = len(g) == 1 and lib.mentions_param(cp.operand(g[0].args[1]), "target_cid")
    oe = cr.calls_to(lambda c: c.path.endswith("Option::ok_or_else") or c.path.endswith("Option::ok_or"))
    ok = ok and len(oe) == 1 and lib.err_propagates(cr, oe[0])
    ctx.require(ok, "R-OP", "cid:check_reference-shape", "check_reference = self.0.get(target_cid).ok_or_else(MissingReference)?",
                "CidStore::check_reference no longer fails exactly when the target CID is absent")
    # CidStore::verify: verify_value(cid, value)? for each entry
    for nm, inner in (("cid_store::CidStore::verify", "verify::verify_value"), ("cid_store::CidStore::verify_raw_value", "verify::verify_raw_value")):
        fn = F.fn(nm)
        ok, how = lib.each_entry_checked(F, fn, inner)
        ctx.require(ok, "R-MUST", "cid:%s-each" % nm.split("::")[-1], "%s checks every entry with %s, error propagated" % (nm.split("::")[-1], inner),
                    "%s no longer checks every entry with %s" % (nm, inner))

    # 5. re-verification of stored results at use
    reach_all, _ = F.reachable_fns([F.fn("runner::execute_air")])
    consumers = ("Scalars::set_scalar_value", "Streams::add_stream_value", "ExecutionCtx::record_call_cid", "TraceHandler::meet_call_end",
                 "ServiceResultAggregate::new", "ValueAggregate::from_service_result")
    nsites = 0
    for fid in sorted(reach_all):
        fn = F.fns[fid]
        if fn.crate != "air":
            continue
        rs = fn.calls_to("ExecutionCidState::resolve_service_info")
        if not rs:
            continue
        p = Prov(fn)
        for i, r in enumerate(rs):
            # a site inside a helper extracted from several audited sites stands for each of the helper's call sites
            audited_owner = common.owner_qual(fn) in ("call_result_setter::populate_context_from_data", "prev_result_handler::handle_prev_state")
            nsites += 1 if audited_owner else max(1, sum(1 for g in F.fns.values() if g.crate == "air" for c_ in g.calls if c_.cid == fn.id))
            okb = lib.result_edges(fn, r).get("ok")
            vcs = [c for c in fn.calls_to("verifier::verify_call") if okb is not None and fn.dominates(okb, c.bb)
                   and any(s[0] == "call" and s[3] is r for s in walk(p.operand(c.args[2])))]
            key = "use:%s#%d" % (common.owner_qual(fn), i)
            if not ctx.require(len(vcs) == 1, "R-GUARD", key + ":verify_call", "resolve_service_info result is checked by verify_call",
                               "%s: a stored service result is resolved (resolve_service_info #%d) but not passed to verify_call" % (fn.path, i)):
                continue
            vcall = vcs[0]
            a = [p.operand(x) for x in vcall.args]
            ok = lib.mentions_param(a[0], "argument_hash") and lib.mentions_param(a[1], "tetraplet") and \
                lib.mentions_field(a[2], "argument_hash") and lib.mentions_field(a[2], "service_result_aggregate") and \
                lib.mentions_field(a[3], "tetraplet") and any(s[0] == "call" and s[3] is r for s in walk(a[3]))
            ctx.require(ok, "R-FLOW", key + ":args", "verify_call(computed hash, computed tetraplet, stored hash, stored tetraplet)",
                        "%s: verify_call receives (%s)" % (fn.path, "; ".join(show(x)[:60] for x in a)), sample={"fn": fn.path, "site": vcall.loc()})
            ctx.require(lib.err_propagates(fn, vcall), "R-MUST", key + ":propagated", "verify_call error propagated", "%s ignores verify_call's result" % fn.path)
            after = fn.reach_after(r.bb)
            for c in fn.calls:
                if c.bb in after and c.path.endswith(consumers):
                    # consumer belongs to this resolve if it is dominated by the resolve's ok edge
                    if okb is not None and fn.dominates(okb, c.bb):
                        ctx.require(lib.guarded_by_ok(fn, vcall, c.bb), "R-GUARD", key + ":before:" + c.path.split("::")[-1],
                                    "%s only after verify_call returned Ok" % c.path.split("::")[-1],
                                    "%s: %s is reachable after resolving a stored result without verify_call having succeeded" % (fn.path, c.path))
    ctx.floor("R-GUARD", "resolve_service_info use sites", nsites, 3)
    hce = F.fn("canon_utils::handle_canon_executed")
    hp = Prov(hce)
    steps = [
        ("get_canon_result", lambda c: c.path.endswith("get_canon_result_by_cid"), [None, lambda e: lib.mentions_param(e, "canon_result_cid")], "get_canon_result_by_cid(&canon_result_cid)"),
        ("get_tetraplet", lambda c: c.path.endswith("get_tetraplet_by_cid"), None, "get_tetraplet_by_cid(tetraplet cid of that result)"),
        ("verify_canon", lambda c: c.path.endswith("canon_utils::verify_canon"),
         [lambda e: lib.mentions_call(e, "SecurityTetraplet::new") and lib.mentions_call(e, "resolve_peer_id_to_string"),
          lambda e: lib.mentions_call(e, "get_tetraplet_by_cid")], "verify_canon(expected(peer_id), stored tetraplet)"),
    ]
    cc = lib.check_chain(ctx, hce, hp, "canon-use", steps, final_ok=False, rule="R-GUARD")
    if cc:
        for c in hce.calls:
            if c.kind == "indirect" or c.path.endswith(("populate_seen_cid_context", "CanonStream::new", "get_canon_value_by_cid")) or "Fn" in c.path and "call" in c.path:
                if c.bb in hce.reach_after(cc[0].bb) and c not in cc:
                    ctx.require(lib.guarded_by_ok(hce, cc[2], c.bb), "R-GUARD", "canon-use:before:" + (c.path.split("::")[-1] if c.kind != "indirect" else "epilog"),
                                "%s only after verify_canon returned Ok" % c.path.split("::")[-1],
                                "handle_canon_executed: %s reachable without verify_canon having succeeded" % c.path)
        # tetraplet cid looked up is the stored aggregate's
        a = hp.operand(cc[1].args[1])
        ctx.require(lib.mentions_field(a, "tetraplet") and lib.mentions_call(a, "get_canon_result_by_cid"), "R-FLOW", "canon-use:tetraplet-of-result",
                    "tetraplet looked up by the stored aggregate's tetraplet CID", "get_tetraplet_by_cid is given `%s`" % show(a)[:120])

    # 5b. verify_call / verify_canon tables
    for nm, pairs in (("verifier::verify_call", [("expected_argument_hash", "stored_argument_hash"), ("expected_tetraplet", "stored_tetraplet")]),
                      ("canon_utils::verify_canon", [("expected_tetraplet", "stored_tetraplet")])):
        fn = F.fn(nm)
        p = Prov(fn)
        rows = set()
        for st in lib.enumerate_paths(fn, p, max_paths=20000):
            rels = []
            for br, val in st.conds:
                if isinstance(br, str):
                    continue
                rel = br.holds_on(br.true_bb if val else br.false_bb)
                if rel and rel[0] in ("==", "!=") and rel[1][0] == "param" and rel[2][0] == "param":
                    rels.append((rel[0], tuple(sorted((rel[1][1], rel[2][1])))))
            rows.add((tuple(rels), lib.path_result(fn, st)))
        want = set()
        pre = []
        for a_, b_ in pairs:
            want.add((tuple(pre + [("!=", tuple(sorted((a_, b_))))]), "Err"))
            pre.append(("==", tuple(sorted((a_, b_)))))
        want.add((tuple(pre), "Ok"))
        ctx.require(rows == want, "R-OP", "table:" + nm.split("::")[-1], "%s: Err iff some pair differs (%d rows)" % (nm, len(rows)),
                    "%s decision table is %s, expected %s" % (nm, sorted(map(str, rows)), sorted(map(str, want))), sample={"fn": nm, "rows": sorted(map(str, rows))})

    # 6. signature bookkeeping
    tp = F.fn("verification::try_push_cid")
    rows = {}
    for st in lib.enumerate_paths(tp):
        var = [v for v in st.variants.values() if v in ("Some", "None")]
        rows[var[0] if var else None] = (lib.path_result(tp, st), len(lib.path_calls(st, "Vec::push")))
    ctx.require(rows == {"Some": ("Ok", 1), "None": ("Err", 0)}, "R-TABLE", "sig:try_push_cid", "known peer -> push; peer without signature -> PeerIdNotFound",
                "try_push_cid table is %s" % rows, sample={"table": {str(k): str(v) for k, v in rows.items()}})
    e = Prov(tp).local(0)
    ctx.require(any(s[0] == "agg" and s[2] == "PeerIdNotFound" for s in walk(e)), "R-TABLE", "sig:try_push_cid-error", "error is PeerIdNotFound", "try_push_cid error changed: %s" % show(e))
    tpp = Prov(tp)
    gm = tp.calls_to("HashMap::get_mut")
    ctx.require(len(gm) == 1 and tpp.operand(gm[0].args[1])[0] == "param" and tpp.operand(gm[0].args[1])[1] == "peer_pk", "R-FLOW", "sig:try_push_cid-key",
                "lookup by the signer peer id", "try_push_cid looks up `%s`" % (show(tpp.operand(gm[0].args[1])) if gm else None))
    dv = F.fn("verification::DataVerifier::verify")
    dp = Prov(dv)
    pv = dv.calls_to("PublicKey::verify")
    ok = len(pv) == 1
    if ok:
        a = [dp.operand(x) for x in pv[0].args]
        ok = lib.mentions_field(a[0], "public_key") and lib.mentions_field(a[1], "cids") and a[2][0] == "field" and a[2][2] == "salt" and lib.mentions_field(a[3], "signature")
        ok = ok and any(s[0] == "call" and s[1].endswith("HashMap::values") and lib.mentions_field(s, "grouped_cids") for s in walk(a[0]))
        me = [c for c in dv.calls if c.path.endswith("Result::map_err")]
        ok = ok and len(me) == 1 and lib.err_propagates(dv, me[0]) and not [g for g in lib.guards_of(dv, pv[0].bb) if g[1] is not None]
    ctx.require(ok, "R-MUST", "sig:verify-each-peer", "every grouped peer's signature verified over its cids with the verifier's salt, error propagated",
                "DataVerifier::verify no longer verifies every peer's (public_key, cids, salt, signature)")
    cpt = F.fn("verification::collect_peers_cids_from_trace")
    # try_push_cid reached directly or through a thin helper that always calls it
    fwd = lib.forwarding_calls(F, cpt, "verification::try_push_cid")
    fwd_bbs = {c.bb for c, _ in fwd}
    rows = {}
    for st in lib.enumerate_paths(cpt, max_paths=60000, max_visits=2):
        kinds = [v for k, v in st.variants.items() if v in ("Call", "Canon", "Par", "Fold", "Ap")]
        for kd in set(kinds):
            pushes = len([c for c in st.calls if c.bb in fwd_bbs])
            rows.setdefault(kd, set()).add(pushes > 0)
    ctx.require(rows.get("Call") == {True, False} and True in rows.get("Canon", set()), "R-TABLE", "sig:collect-kinds",
                "Call(with cid) and Canon(Executed) states contribute CIDs to their signer", "collect_peers_cids_from_trace coverage is %s" % rows)
    for c, _ in fwd:
        ctx.require(lib.err_propagates(cpt, c), "R-MUST", "sig:collect-propagates", "try_push_cid error propagated", "collect_peers_cids_from_trace ignores try_push_cid's error")
    cpp = Prov(cpt, F=F, inline=2)
    for c, _ in fwd:
        node = cpp._call(c, 0, frozenset())
        for inner in lib.inlined_calls(node, "verification::try_push_cid"):
            pk = inner[2][1]
            ctx.require(lib.mentions_field(pk, "peer_pk") and lib.mentions_field(pk, "tetraplet_store"), "R-FLOW", "sig:collect-signer",
                        "signer := peer_pk of the stored tetraplet of that result", "try_push_cid signer is `%s`" % show(pk)[:120])
    gc = F.fn("CallResult>::get_cid")
    rows = {}
    for st in lib.enumerate_paths(gc):
        var = [v for k, v in st.variants.items() if k[0] == 1 and v in ("RequestSentBy", "Executed", "Failed")]
        if var:
            rows[var[0]] = tuple(sorted({c.path.split("::")[-1] for c in st.calls})), [v for k, v in st.variants.items() if k[0] == 0]
    e = Prov(gc).local(0)
    ok = set(rows) == {"RequestSentBy", "Executed", "Failed"} and rows["Executed"][0] == ("get_cid",) and rows["RequestSentBy"][0] == () and rows["Failed"][0] == ()
    ctx.require(ok, "R-TABLE", "sig:get_cid", "RequestSentBy->None, Executed->value's cid, Failed->Some(cid)", "CallResult::get_cid table is %s" % rows)
    vr = F.fn("ValueRef>::get_cid") if F.find("ValueRef>::get_cid") else None
    if vr is not None:
        rows = {}
        for st in lib.enumerate_paths(vr):
            var = [v for k, v in st.variants.items() if k[0] == 1]
            pe = lib.PathProv(vr, st.blocks).local(0)
            rows[var[0] if var else None] = pe[2] if pe[0] == "agg" else show(pe)
        ctx.require(rows == {"Scalar": "Some", "Stream": "Some", "Unused": "None"}, "R-TABLE", "sig:value-get_cid", "Scalar/Stream -> Some(cid), Unused -> None",
                    "ValueRef::get_cid table is %s" % rows)
    # DataVerifier::new: validate every key, error propagated; collect from trace propagated
    dnp = Prov(dn)
    for suffix, what in (("PublicKey::validate", "key algorithm validation"), ("verification::collect_peers_cids_from_trace", "CID collection")):
        cs = dn.calls_to(suffix) or [c for f in F.closures_of(dn) for c in f.calls_to(suffix)]
        ctx.require(len(cs) == 1, "R-MUST", "sig:new:" + suffix.split("::")[-1], "%s present in DataVerifier::new" % what, "DataVerifier::new no longer performs %s" % what)
    cs = dn.calls_to("verification::collect_peers_cids_from_trace")
    if cs:
        ctx.require(lib.err_propagates(dn, cs[0]), "R-MUST", "sig:new:collect-propagated", "collection error propagated", "DataVerifier::new ignores collect_peers_cids_from_trace's error")
        a = [dnp.operand(x) for x in cs[0].args]
        ctx.require(lib.mentions_field(a[0], "trace") and lib.mentions_field(a[1], "cid_info") and lib.mentions_param(a[0], "data"), "R-FLOW", "sig:new:collect-args",
                    "collects from data.trace with data.cid_info", "collect_peers_cids_from_trace given (%s, %s)" % (show(a[0]), show(a[1])))
