"""C15 — a peer cannot present two incompatible versions of its own results (DESIGN §4/C15)."""
from rules import lib
from rules.lib import Prov, show, walk
from props import common

LEVEL = ("Mechanism level on a small comparison-only function family: swap iff our.len() < other.len(); the multiset "
         "invariant is checked on the Occupied arm with operands taken after the swap and its error propagated; "
         "is_multisubset is false iff larger_count < smaller_count for some CID of the smaller map (default 0); "
         "to_count_map counts +1 per element; Vacant inserts; the resulting store is built from the merged map; the error "
         "reaches the prev-data exit (shared with C14/C02).")


def check(ctx):
    F = ctx.facts("prod")
    ctx.clause("R-OP swap iff ours shorter; R-MUST check_cid_multiset_invariant(larger, smaller)? after the swap")
    ctx.clause("R-OP is_multisubset false iff larger_count < smaller_count; default 0; to_count_map +1 per element")
    ctx.clause("R-TABLE Vacant -> insert; result store built from self.grouped_cids")
    m = F.fn("verification::DataVerifier::merge")
    p = Prov(m)
    sw = m.calls_to("core::mem::swap")
    chk = m.calls_to("verification::check_cid_multiset_invariant")
    ins = m.calls_to("VacantEntry::insert")
    if not ctx.require(len(sw) == 1 and len(chk) == 1 and len(ins) == 1, "R-TABLE", "merge:anchors", "one swap, one invariant check, one vacant insert",
                       "DataVerifier::merge anchors changed: swap=%d check=%d insert=%d" % (len(sw), len(chk), len(ins))):
        return
    sw, chk, ins = sw[0], chk[0], ins[0]
    # swap guard
    gs = [(br, rel) for br, rel in lib.guards_of(m, sw.bb, p) if rel and rel[0] in ("<", "<=", "==", "!=")]
    good = False
    desc = None
    for br, rel in gs:
        if rel[0] == "<" and rel[1][0] == "call" and rel[1][1].endswith("Vec::len") and rel[2][0] == "call" and rel[2][1].endswith("Vec::len"):
            l, r = show(rel[1]), show(rel[2])
            desc = "%s < %s" % (l, r)
            ours = "OccupiedEntry::get" in l and "cids" in l
            theirs = "other.grouped_cids" in r and "OccupiedEntry" not in r
            good = ours and theirs
    ctx.require(good, "R-OP", "merge:swap-iff-shorter", "swap iff our.cids.len() < other.cids.len()",
                "DataVerifier::merge swaps when `%s`, expected ours strictly shorter than theirs" % desc, sample={"guard": desc})
    a = [p.operand(x) for x in sw.args]
    ctx.require("get_mut" in show(a[0]) and "other.grouped_cids" in show(a[1]), "R-FLOW", "merge:swap-operands", "swap(our entry, other_info)",
                "swap operands are (%s, %s)" % (show(a[0])[:80], show(a[1])[:80]))
    # the check comes after the swap on the path where the swap happens, and on every Occupied path
    occ_paths = 0
    bad = []
    for st in lib.enumerate_paths(m, p, max_paths=60000, max_visits=2):
        if "Occupied" in st.variants.values():
            occ_paths += 1
            names = [c.path.split("::")[-1] for c in st.calls if c.path.endswith(("mem::swap", "check_cid_multiset_invariant"))]
            # per loop iteration: sequence must be (swap?) check
            seq = "".join("s" if n == "swap" else "c" for n in names)
            import re as _re
            if not _re.fullmatch(r"(s?c)+", seq):
                bad.append(seq)
    ctx.require(occ_paths > 0 and not bad, "R-MUST", "merge:check-after-swap", "on every Occupied iteration: optional swap, then the invariant check (%d paths)" % occ_paths,
                "DataVerifier::merge has Occupied paths with call sequence %s (s=swap, c=check)" % sorted(set(bad)))
    ctx.require(lib.err_propagates(m, chk), "R-MUST", "merge:check-propagated", "check error propagated", "check_cid_multiset_invariant's error is ignored")
    ca = [p.operand(x) for x in chk.args]
    ctx.require("OccupiedEntry::get" in show(ca[0]) and "other.grouped_cids" in show(ca[1]) and "OccupiedEntry" not in show(ca[1]), "R-FLOW", "merge:check-operands",
                "check(larger = our entry after swap, smaller = other_info after swap)", "check operands are (%s, %s)" % (show(ca[0])[:80], show(ca[1])[:80]))
    vg_ins = {v for e, v in lib.variant_guards(m, ins.bb, p) if v in ("Occupied", "Vacant")}
    vg_chk = {v for e, v in lib.variant_guards(m, chk.bb, p) if v in ("Occupied", "Vacant")}
    ctx.require(vg_ins == {"Vacant"} and vg_chk == {"Occupied"}, "R-TABLE", "merge:entry-table",
                "Vacant -> insert(other_info); Occupied -> invariant check", "entry table: insert under %s, check under %s" % (vg_ins, vg_chk))
    ia = p.operand(ins.args[1])
    ctx.require("other.grouped_cids" in show(ia), "R-FLOW", "merge:vacant-inserts-other", "vacant entry receives the other peer info", "vacant insert value is `%s`" % show(ia)[:100])
    put = m.calls_to("SignatureStore::put")
    ok = len(put) == 1 and "into_values(self.grouped_cids)" in show(p.operand(put[0].args[1])).replace("HashMap::", "")
    ctx.require(ok, "R-FLOW", "merge:result-from-merged", "store built from self.grouped_cids (merged map)", "resulting SignatureStore is not built from the merged map")

    ci = F.fn("verification::check_cid_multiset_invariant")
    cp = Prov(ci)
    ms = ci.calls_to("verification::is_multisubset")
    if ctx.require(len(ms) == 1, "R-FLOW", "invariant:anchor", "is_multisubset called once", "is_multisubset calls: %d" % len(ms)):
        a = [show(cp.operand(x)) for x in ms[0].args]
        ctx.require("to_count_map(larger_pair.cids)" in a[0] and "to_count_map(smaller_pair.cids)" in a[1], "R-FLOW", "invariant:operands",
                    "is_multisubset(count(larger.cids), count(smaller.cids))", "is_multisubset operands are %s" % a)
        tbl = {}
        for st in lib.enumerate_paths(ci, cp):
            for br, val in st.conds:
                if not isinstance(br, str) and br.expr[0] == "call" and br.expr[1].endswith("is_multisubset"):
                    tbl[val] = lib.path_result(ci, st)
        ctx.require(tbl == {True: "Ok", False: "Err"}, "R-TABLE", "invariant:table", "Ok iff is_multisubset", "check_cid_multiset_invariant table is %s" % tbl)
    im = F.fn("verification::is_multisubset")
    ip = Prov(im)
    brs = [b for b in lib.bool_branches(im, ip) if b.form[0] != "bool" and any(s[0] == "call" and s[1].endswith("HashMap::get") for s in walk(b.expr))]
    if ctx.require(len(brs) == 1, "R-OP", "multisubset:compare", "one count comparison", "is_multisubset has %d count comparisons" % len(brs)):
        br = brs[0]
        false_bbs = [bi for bi, si, s in im.stmts() if s["lhs"]["l"] == 0 and s["rv"]["k"] == "use" and s["rv"]["op"].get("const", {}).get("v") == "0"]
        true_bbs = [bi for bi, si, s in im.stmts() if s["lhs"]["l"] == 0 and s["rv"]["k"] == "use" and s["rv"]["op"].get("const", {}).get("v") == "1"]
        ok = len(false_bbs) == 1 and len(true_bbs) == 1
        rel = None
        if ok:
            for tgt in (br.true_bb, br.false_bb):
                if lib.edge_dominates(im, br.bb, tgt, None, false_bbs[0]):
                    rel = br.holds_on(tgt)
            ok = rel is not None and rel[0] == "<" and any(s[0] == "call" and s[1].endswith("HashMap::get") and lib.mentions_param(s, "larger_count_set") for s in walk(rel[1])) \
                and lib.mentions_param(rel[2], "smaller_count_set") and any(s[0] == "call" and s[1].endswith("unwrap_or_default") for s in walk(rel[1]))
        ctx.require(ok, "R-OP", "multisubset:false-iff-less", "returns false iff larger.get(cid).unwrap_or_default() < smaller_count",
                    "is_multisubset returns false when `%s`" % ("%s %s %s" % (show(rel[1])[:80], rel[0], show(rel[2])[:80]) if rel else None),
                    sample={"relation": "%s %s %s" % (show(rel[1])[:80], rel[0], show(rel[2])[:80]) if rel else None})
        if ok:
            # true is returned only when the iteration over the smaller map is exhausted
            nx = [c for c in im.calls if c.path.endswith("Iterator>::next")]
            okx = len(nx) == 1 and lib.result_edges(im, nx[0]).get("err") is not None and im.dominates(lib.result_edges(im, nx[0])["err"], true_bbs[0]) \
                and lib.mentions_param(ip.operand(nx[0].args[0]), "smaller_count_set")
            ctx.require(okx, "R-OP", "multisubset:true-only-after-all", "true only after every CID of the smaller map was compared", "is_multisubset can return true early")
    tc = F.fn("verification::to_count_map")
    tp = Prov(tc)
    adds = []
    for bi, si, s in tc.stmts():
        if s["rv"]["k"] == "bin" and s["rv"]["op"] in ("Add", "AddWithOverflow"):
            adds.append(tp._rv(s["rv"], 0, frozenset()))
    ok = len(adds) == 1 and adds[0][3][0] == "const" and adds[0][3][2] == "1" and any(s[0] == "call" and s[1].endswith("Entry::or_default") for s in walk(adds[0][2]))
    nx = [c for c in tc.calls if c.path.endswith("Iterator>::next")]
    ok = ok and len(nx) == 1 and lib.mentions_param(tp.operand(nx[0].args[0]), "cids")
    ctx.require(ok, "R-OP", "countmap:plus-one", "count_map[cid] += 1 for every element of cids", "to_count_map no longer counts +1 per element")
    common.farewell_sites(ctx, F, only=["verification_step::verify"])
    v = F.fn("verification_step::verify")
    mc = v.calls_to("DataVerifier::merge")
    ctx.require(len(mc) == 1 and lib.err_propagates(v, mc[0]), "R-MUST", "verify:merge-propagated", "merge error propagated by verify", "verify ignores merge's error")
