"""C01 — the interpreter never crashes or runs out of memory on adversarial input (DESIGN §4/C01)."""
import json
import os
import re

from rules import lib, facts
from rules.facts import suffix_match, norm
from rules.lib import Prov, show, walk
from props import census

LEVEL = ("Mechanism level (necessary conditions over all code reachable from the four public entry points, external-trait "
         "impls included as callbacks): a census of panic-capable sites — MIR Assert terminators, calls to panic "
         "primitives, integer operator-trait calls, calls to the workspace's own unguarded arithmetic/index wrappers — each "
         "of which must be discharged by a recognised structural reason (generated/derive code, constant-false debug "
         "branch, 64-bit size arithmetic, constant in-bounds index), by a reasoned row of the frozen site table with an exact "
         "per-function count, or by a known finding; validation gates (rkyv check_bytes, size limits, verify) dominate the "
         "consumers; allocation sizes derive from in-memory lengths or constants; recursion cycles are enumerated; no "
         "unsafe outside the audited rows. Sufficiency of guards, memory use inside third-party crates and termination are "
         "not decided."
         " Added by the build: every unwrap of Number::as_* is re-checked to sit under the matching is_* test; the type-derived CID reference obligations (every entry, unconditional, propagated) are evaluated as the premise of the `verified CID store` rows; positive controls for every matcher.")

TABLE = os.path.join(facts.VERIF, "tables", "c01_sites.json")

# the workspace's own leaf wrappers that panic on their *arguments* (judged at their call sites)
WRAPPERS = (
    "TracePos as core::ops::arith::Add<u32>>::add", "TracePos as core::ops::arith::Add>::add",
    "TracePos as core::ops::arith::AddAssign>::add_assign", "TracePos as core::ops::arith::AddAssign<u32>>::add_assign",
    "TracePos as core::ops::arith::Sub>::sub", "TracePos as core::ops::arith::Sub<u32>>::sub",
    "AirPos as core::ops::arith::Add<usize>>::add", "AirPos as core::ops::arith::Sub<usize>>::sub", "AirPos as core::ops::arith::Sub>::sub",
    "ExecutionTrace as core::ops::index::Index<air_interpreter_data::trace_pos::TracePos>>::index",
    "ExecutionTrace as core::ops::index::IndexMut<air_interpreter_data::trace_pos::TracePos>>::index_mut",
    "generation_idx::GenerationIdx::next", "generation_idx::GenerationIdx::prev",
)
ALLOC_CALLEES = ("::with_capacity", "::reserve", "::reserve_exact", "::resize", "::resize_with", "::from_elem", "::repeat",
                 "::with_capacity_and_hasher", "::try_reserve")


def load_table():
    with open(TABLE) as fh:
        return json.load(fh)


def auto_discharge(site):
    if site["generated_fn"]:
        return "generated:" + site["generated_fn"]
    if site["generated_site"]:
        return "generated-site:" + site["generated_site"]
    t = site["term"]
    if site["kind"] == "assert":
        if site["what"] in ("Overflow:Add", "Overflow:Mul") and site["oty"] in ("usize", "u64"):
            return "64-bit size/counter arithmetic: operands are in-memory lengths, indices or counters; overflow needs 2^64"
        if site["what"] == "Overflow:Sub":
            g = _sub_guard(site)
            if g:
                return "guarded subtraction: " + g
        if site["what"] == "BoundsCheck":
            ln, ix = t["ops"]
            lc, ic = ln.get("const", {}).get("v"), ix.get("const", {}).get("v")
            if lc is not None and ic is not None and int(ic) < int(lc):
                return "constant index %s into a fixed array of %s" % (ic, lc)
    return None


def evaluate_sites(ctx, F, reach, parent, table):
    """R-REACH panic census over `reach`: every site must be discharged structurally, by a table row (exact count) or be a finding."""
    rows = table["rows"]
    # wrapper call sites
    wrapper_ids = set()
    for w in WRAPPERS:
        fs = [f for f in F.fns.values() if f.path.endswith(w)]
        if ctx.require(len(fs) == 1, "R-REACH", "wrapper:" + w, "wrapper %s found" % w, "arithmetic/index wrapper %s not found (renamed?)" % w):
            wrapper_ids.add(fs[0].id)
    sites = []
    for s in census.panic_sites(F, reach):
        if s["fn"].id in wrapper_ids:
            continue      # judged at the call sites of the wrapper
        sites.append(s)
    for fid in sorted(reach):
        fn = F.fns[fid]
        if fid in wrapper_ids:
            continue
        gen = census.is_generated_fn(fn)
        feas = census.feasible_blocks(fn)
        counters = {}
        for c in fn.calls:
            if c.cid in wrapper_ids and c.bb in feas:
                sig = "call|%s|" % c.path
                n = counters.get(sig, 0)
                counters[sig] = n + 1
                sites.append({"kind": "call", "what": c.path, "fn": fn, "bb": c.bb, "ex": c.ex, "loc": c.loc(), "term": c.term, "msg": None,
                              "generated_fn": gen, "generated_site": census.site_generated(c.ex), "key": "%s|%s#%d" % (fn.path, sig, n)})
    # group non-auto sites per (fn, kind, what)
    groups = {}
    n_auto = 0
    auto_kinds = {}
    for s in sites:
        a = auto_discharge(s)
        if a:
            n_auto += 1
            k = a.split(":")[0]
            auto_kinds[k] = auto_kinds.get(k, 0) + 1
            ctx.examined()
            continue
        what = s["what"]
        if s["kind"] == "assert":
            what = "%s:%s" % (s["what"], s["oty"])
        groups.setdefault((s["fn"].path, s["kind"], what), []).append(s)
    for k, v in auto_kinds.items():
        ctx.ok("R-REACH", "auto:" + k, "%d sites discharged structurally (%s)" % (v, k))
    ctx.analysed.setdefault("prod", {})["sites_total"] = len(sites)
    ctx.analysed.setdefault("prod", {})["sites_auto_discharged"] = n_auto
    by_key = {}
    for r in rows:
        by_key[(r["fn"], r["kind"], r["what"])] = r

    def crate_of(fnp):
        m = re.match(r"^<*([A-Za-z_][A-Za-z0-9_]*)::", fnp)
        return m.group(1) if m else "?"

    # "moved site" pool: an audited safe row whose function now shows fewer live sites than were audited (the code was
    # moved / the function renamed or split) can vouch for the same number of sites with the same (crate, kind, primitive)
    # that surfaced in another function.  Net additions are still violations; findings are never moved.
    deficit = {}
    for (fnp, kind, what), r in by_key.items():
        if r["disposition"] != "safe":
            continue
        live = len(groups.get((fnp, kind, what), ()))
        if live < r["count"]:
            deficit.setdefault((crate_of(fnp), kind, what), []).extend([r] * (r["count"] - live))
    used = set()
    n_moved = 0
    for (fnp, kind, what), ss in sorted(groups.items()):
        r = by_key.get((fnp, kind, what))
        key = "%s|%s|%s" % (fnp, kind, what)
        if r is not None and r["disposition"] == "finding":
            used.add((fnp, kind, what))
            for i, s in enumerate(ss):
                ctx.violation("R-REACH", "site:%s#%d" % (key, i), "%s (%s at %s)" % (r["reason"], what, s["loc"]), {"loc": s["loc"]})
            continue
        allowed = r["count"] if r is not None else 0
        if r is not None:
            used.add((fnp, kind, what))
        for s in ss[:allowed]:
            ctx.ok("R-REACH", "row:" + key, r["reason"], sample={"site": s["loc"], "reason": r["reason"]} if len(ctx.samples) < 25 else None)
        for i, s in enumerate(ss[allowed:]):
            pool = deficit.get((crate_of(fnp), kind, what))
            if pool:
                src = pool.pop()
                n_moved += 1
                ctx.ok("R-REACH", "moved:" + key, "site moved from %s (audited there: %s)" % (src["fn"], src["reason"]),
                       sample={"site": s["loc"], "moved_from": src["fn"]})
                continue
            if r is None:
                ctx.violation("R-REACH", "site:%s#%d" % (key, i),
                              "new panic-capable site in input-reachable code: %s `%s` in %s at %s (not in the audited table)" % (kind, what, fnp, s["loc"]),
                              {"fn": fnp, "loc": s["loc"], "ex": s["ex"], "msg": s.get("msg"), "chain": [F.fns[x].path for x in F.chain(parent, s["fn"].id)][-6:]})
            else:
                ctx.violation("R-REACH", "site:%s#extra%d" % (key, i),
                              "%s now has %d `%s` sites, the audited table allows %d: new panic-capable site at %s" % (fnp, len(ss), what, r["count"], s["loc"]), {"loc": s["loc"]})
    stale = [k for k in by_key if k not in used]
    ctx.notes.append("table rows without a live site (code moved or removed): %d; sites accepted as moved: %d" % (len(stale), n_moved))

    return sites, n_auto


_PROV = {}


def _sub_guard(site):
    """`a - b` is preceded on every path by a comparison that implies b <= a (repo idioms: `if a >= 1 { a -= 1 }`,
    `if len == 0 { return }; len - 1`, `if a < b { return }; a - b`)."""
    fn, t = site["fn"], site["term"]
    p = _PROV.get(fn.id)
    if p is None:
        p = _PROV[fn.id] = Prov(fn)
    a, b = p.operand(t["ops"][0]), p.operand(t["ops"][1])
    sa, sb = show(a), show(b)
    for br, rel in lib.guards_of(fn, site["bb"], p):
        if rel is None or rel[0] == "bool":
            continue
        l, r = show(rel[1]), show(rel[2])
        if rel[0] in ("<=", "<") and l == sb and r == sa:
            return "%s %s %s" % (l, rel[0], r)
        if b[0] == "const" and b[2] == "1":
            if rel[0] == "!=" and ((l == sa and rel[2][0] == "const" and rel[2][2] == "0") or (r == sa and rel[1][0] == "const" and rel[1][2] == "0")):
                return "%s != 0" % sa
            if rel[0] == "<" and rel[1][0] == "const" and rel[1][2] == "0" and r == sa:
                return "0 < %s" % sa
            if rel[0] == "<=" and rel[1][0] == "const" and rel[1][2] == "1" and r == sa:
                return "1 <= %s" % sa
    return None


def check(ctx):
    F = ctx.facts("prod")
    from props import controls
    controls.require(ctx, "panic-site", "alloc", "unsafe", "recursion")
    ctx.clause("R-REACH panic census over entry-point-reachable code (Assert terminators, panic primitives, integer operator calls, own wrappers); "
               "each site discharged by structure, by a reasoned table row with exact count, or by a known finding")
    ctx.clause("R-MUST validation gates: rkyv check before deserialize; size limits before parse; verify before prepare; stream size check")
    ctx.clause("R-REACH allocation census: sizes derive from in-memory lengths or constants")
    ctx.clause("recursion census: call-graph cycles enumerated against a reasoned table")
    ctx.clause("R-NOSRC unsafe: no user-written unsafe outside audited rows; overflow-checks enabled in the release profile")

    reach, parent, roots, extra = census.reach_set(F)
    ctx.analysed.setdefault("prod", {})["entry_points"] = [r.path for r in roots]
    ctx.analysed.setdefault("prod", {})["callback_roots"] = len(extra)
    ctx.analysed.setdefault("prod", {})["reachable_functions"] = len(reach)
    ctx.floor("R-REACH", "reachable functions", len(reach), 3000)
    table = load_table()

    sites, n_auto = evaluate_sites(ctx, F, reach, parent, table)
    ctx.floor("R-REACH", "panic-capable sites found", len(sites), 500)
    # 1b. rows whose reason is "guarded by is_i64()/is_u64() on the same number" are re-checked mechanically: every
    # unwrap/expect of Number::as_i64 / as_u64 / as_f64 in reachable code sits on the true edge of the matching is_* test
    ctx.clause("R-GUARD every unwrap of Number::as_i64/as_u64/as_f64 is dominated by the matching is_i64/is_u64/is_f64 test of the same number")
    n_num = 0
    for fid in sorted(reach):
        fn = F.fns[fid]
        if census.is_generated_fn(fn):
            continue
        pn = None
        for c in fn.calls:
            if not c.path.endswith(("Option::unwrap", "Option::expect")):
                continue
            pn = pn or Prov(fn)
            src = lib.strip(pn.operand(c.args[0]))
            if not (src[0] == "call" and src[1].endswith(("Number::as_i64", "Number::as_u64", "Number::as_f64"))):
                continue
            n_num += 1
            want = "Number::is_" + src[1].rsplit("as_", 1)[1]
            num = show(src[2][0])
            ok = False
            for br, rel in lib.guards_of(fn, c.bb, pn):
                if rel and rel[0] == "bool" and rel[2] is True and br.expr[0] == "call" and br.expr[1].endswith(want) and show(br.expr[2][0]) == num:
                    ok = True
            ctx.require(ok, "R-GUARD", "number-unwrap:%s|%s" % (fn.path, src[1].split("::")[-1]), "%s().unwrap() only after %s() on the same number" % (src[1].split("::")[-1], want.split("::")[-1]),
                        "%s unwraps %s of a number without the dominating %s() test: a fractional or out-of-range JSON number supplied by a service or by data panics the interpreter"
                        % (fn.path, src[1].split("::")[-1], want.split("::")[-1]), sample={"fn": fn.path, "site": c.loc()})
    ctx.floor("R-GUARD", "guarded Number::as_* unwraps", n_num, 4)
    # 2. gates
    fa = F.fn("air_interpreter_data::rkyv::from_aligned_slice")
    fp = Prov(fa)
    chk = [c for c in fa.calls if "check_archived_root" in c.path]
    des = [c for c in fa.calls if c.path.endswith("Deserialize>::deserialize") or c.path.endswith("::deserialize")]
    ok = len(chk) == 1 and len(des) >= 1 and all(lib.guarded_by_ok(fa, chk[0], d.bb) for d in des)
    ctx.require(ok, "R-MUST", "gate:rkyv-validate", "rkyv data is validated (check_archived_root_with_context) before it is deserialized",
                "from_aligned_slice deserializes archived data without a dominating successful validation")
    uns = [u for u in F.unsafe if u["user"] and u["crate"] == "air_interpreter_data" and not census.site_generated(u["sp"].get("ex", []))]
    ctx.require(not uns, "R-NOSRC", "gate:no-unsafe-archive-access", "no hand-written unsafe in air_interpreter_data (no unchecked archived_root)",
                "hand-written unsafe in air_interpreter_data: %s" % [u["in"] for u in uns][:3])
    ex = F.fn("runner::execute_air_impl")
    sz = ex.calls_to("sizes_limits_check::check_against_size_limits")
    pd = ex.calls_to("preparation::parse_data")
    vf = ex.calls_to("verification_step::verify")
    pr = ex.calls_to("preparation::prepare")
    ok = sz and pd and vf and pr and any(lib.guarded_by_ok(ex, s, pd[0].bb) for s in sz) and lib.guarded_by_ok(ex, pd[0], vf[0].bb) and lib.guarded_by_ok(ex, vf[0], pr[0].bb)
    ctx.require(ok, "R-MUST", "gate:order", "size limits -> parse_data -> verify -> prepare, each after the former succeeded", "the validation order in execute_air_impl changed")
    # rows of the site table that read "cannot happen in a verified CID store" (the expect()s in
    # collect_peers_cids_from_trace and in the execution-time CID lookups) rest on CidInfo::verify having checked every
    # reference of every stored aggregate: that premise is evaluated here, not assumed
    ctx.clause("R-COVER premise of the `verified CID store` rows: type-derived check_reference obligations hold (every entry, unconditional, propagated)")
    from props import C14
    C14.cid_reference_obligations(ctx, F)
    av = F.fn("stream_definition::Stream::add_value")
    avp = Prov(av)
    ck = av.calls_to("Stream::check_stream_size_limit")
    adds = [c for c in av.calls if c.path.endswith(("add_value_to_generation", "add_to_last_generation"))]
    ok = len(ck) == 1 and len(adds) == 3 and all(av.must_pass(c.target, [ck[0].bb]) for c in adds) and lib.err_propagates(av, ck[0])
    ctx.require(ok, "R-MUST", "gate:stream-size", "after every stream append the size check runs and its result is returned", "Stream::add_value can skip the size check after adding a value")
    # data-supplied generation indices are bounded before the matrix is resized (path-sensitive: the guard sits in an
    # `if let Previous|Current` before the dispatching match)
    n_guarded, bad = 0, 0
    for st in lib.enumerate_paths(av, avp, max_paths=20000):
        if not lib.path_calls(st, "ValuesMatrix::add_value_to_generation"):
            continue
        ok = False
        for br, val in st.conds:
            if isinstance(br, str):
                continue
            rel = br.holds_on(br.true_bb if val else br.false_bb)
            if rel and rel[0] == "<" and rel[2][0] == "const" and str(rel[2][1]).endswith("STREAM_MAX_SIZE") and lib.mentions_param(rel[1], "generation"):
                ok = True
        n_guarded += 1 if ok else 0
        bad += 0 if ok else 1
    ctx.require(n_guarded >= 2 and bad == 0, "R-GUARD", "alloc-guard:stream-generation", "every path to add_value_to_generation has passed `generation < STREAM_MAX_SIZE` (%d paths)" % n_guarded,
                "Stream::add_value reaches ValuesMatrix::add_value_to_generation on %d path(s) without the `generation < STREAM_MAX_SIZE` guard: the data can choose the allocation size" % bad,
                sample={"guarded_paths": n_guarded})
    callers = {F.fns[f].path for f, outs in F.callgraph().items() if any(F.fns[o].path.endswith("ValuesMatrix::add_value_to_generation") for o in outs)}
    allowed = {av.path, "air::execution_step::value_types::stream::values_matrix::NewValuesMatrix::add_to_last_generation"}
    ctx.require(callers == allowed, "R-WRITERS", "alloc-guard:callers", "add_value_to_generation is called only by Stream::add_value (guarded) and NewValuesMatrix::add_to_last_generation (index = own len - 1)",
                "add_value_to_generation has new callers: %s" % sorted(callers - allowed))
    # 3. allocations
    arows = {(r["fn"], r["callee"]): r for r in table["allocations"]}
    n_alloc = 0
    for fid in sorted(reach):
        fn = F.fns[fid]
        if census.is_generated_fn(fn):
            continue
        p = None
        for c in fn.calls:
            if not c.path.endswith(ALLOC_CALLEES) or census.site_generated(c.ex):
                continue
            p = p or Prov(fn)
            n_alloc += 1
            size_args = [p.operand(a) for a in c.args]
            # the size is the last integer-typed argument for with_capacity/reserve/from_elem, arg 1 for resize
            tys = c.atys
            cand = [e for e, t in zip(size_args, tys) if t in ("usize", "u32", "u64") or "Idx" in t or "TracePos" in t]
            bounded = True
            why = []
            for e in cand:
                okc = _size_bounded(e)
                if not okc:
                    bounded = False
                    why.append(show(e)[:120])
            key = "alloc:%s|%s" % (fn.path, c.path.split("::")[-1])
            r = arows.get((fn.path, c.path.split("::")[-1]))
            if bounded:
                ctx.ok("R-REACH", "alloc-bounded", "allocation size is a constant or an in-memory length", sample=None)
            elif r is not None and r["disposition"] == "safe":
                ctx.ok("R-REACH", key, r["reason"])
            else:
                ctx.violation("R-REACH", key, (r["reason"] if r else "allocation in %s sized by `%s`, which derives neither from a constant nor from the length of in-memory data" % (fn.path, why)),
                              {"loc": c.loc(), "size": why})
    ctx.floor("R-REACH", "allocation sites examined", n_alloc, 10)

    # 4. recursion
    cg = F.callgraph()
    sccs = _sccs({v: [w for w in cg.get(v, ()) if w in reach] for v in reach})
    rrows = table["recursion"]
    for comp in sccs:
        names = sorted(F.fns[x].path for x in comp)
        if all(census.is_generated_fn(F.fns[x]) for x in comp):
            ctx.ok("R-REACH", "recursion:generated", "cycle inside derive-generated code (%d fns), depth = nesting of the (validated, size-limited) data type" % len(comp))
            continue
        hit = None
        for r in rrows:
            if r.get("member") and any(r["member"] in n for n in names):
                hit = r
        key = "recursion:" + names[0]
        if hit is None:
            ctx.violation("R-REACH", key, "new recursion cycle in input-reachable code: %s" % names[:5], {"members": names})
        elif hit["disposition"] == "finding":
            ctx.violation("R-REACH", "recursion:" + hit["id"], hit["reason"], {"members": names})
        else:
            ctx.ok("R-REACH", "recursion:" + hit["id"], hit["reason"])
    # recursive drop glue of recursive ADTs
    for r in rrows:
        if r.get("kind") == "drop":
            if r["disposition"] == "finding":
                ctx.violation("R-REACH", "recursion:" + r["id"], r["reason"], {})
            else:
                ctx.ok("R-REACH", "recursion:" + r["id"], r["reason"])

    # 5. unsafe / profile
    urows = {r["in"]: r for r in table["unsafe"]}
    for u in F.unsafe:
        if not u["user"] or census.site_generated(u["sp"].get("ex", [])) or (u["sp"].get("ex") and census.outer_macro(u["sp"]["ex"]) and census.outer_macro(u["sp"]["ex"]).startswith(("derive macro:", "macro:thread_local", "macro:$crate::thread"))):
            continue
        if u["crate"] not in ("air", "air_trace_handler", "air_interpreter_data", "air_interpreter_cid", "air_parser", "air_lambda_parser", "air_lambda_ast",
                               "air_interpreter_value", "air_interpreter_signatures", "air_interpreter_sede", "air_interpreter_interface", "polyplets", "air_beautifier"):
            continue
        r = urows.get(u["in"])
        ctx.require(r is not None, "R-NOSRC", "unsafe:" + u["in"], "audited unsafe block in %s: %s" % (u["in"], r["reason"] if r else ""),
                    "hand-written unsafe block in %s (%s) is not in the audited table" % (u["in"], u["sp"]["s"].split(": ")[0]))
    try:
        txt = open(os.path.join(facts.REPO, "Cargo.toml")).read()
        rel = txt.split("[profile.release]")[1].split("\n[")[0] if "[profile.release]" in txt else ""
        ctx.require(re.search(r"overflow-checks\s*=\s*true", rel) is not None, "R-CFG", "profile:overflow-checks",
                    "release profile keeps overflow-checks = true (an overflow is a panic, in scope, not a silent wrap)",
                    "the release profile no longer enables overflow-checks: arithmetic on wire values would wrap silently")
    except OSError:
        ctx.violation("R-CFG", "profile:read", "cannot read /repo/Cargo.toml")


_LEN_CALLS = ("::len", "ExactSizeIterator>::len", "::size_hint", "::capacity", "::count")
_SIZE_COMBINATORS = ("::unwrap_or", "::unwrap_or_default", "::min", "::max", "::saturating_add", "::saturating_sub", "::saturating_mul",
                     "::checked_add", "::checked_mul", "::checked_sub", "::next_power_of_two", "::map", "::unwrap_or_else", "::map_or", "::unwrap",
                     "::expect", "::div_ceil")


def _size_bounded(e):
    """The size expression is built only from constants and lengths of in-memory containers, combined by arithmetic,
    casts, min/max/unwrap_or-style combinators and control-flow joins.  Any other leaf (a field of decoded data, a
    parameter, the result of another call) makes it data-chosen."""
    t = e[0]
    if t == "const":
        return True
    if t == "call":
        if e[1].endswith(_LEN_CALLS):
            return True
        if e[1].endswith(_SIZE_COMBINATORS):
            return all(_size_bounded(a) for a in e[2] if a[0] not in ("closure", "fnref"))
        return False
    if t == "bin":
        return _size_bounded(e[2]) and _size_bounded(e[3])
    if t in ("un",):
        return _size_bounded(e[2])
    if t == "cast":
        return _size_bounded(e[2])
    if t == "phi":
        return all(_size_bounded(x) for x in e[1])
    if t in ("ok", "try", "err"):
        return _size_bounded(e[1])
    if t == "tuple":
        return all(_size_bounded(x) for x in e[1])
    if t == "field" and e[1][0] in ("tuple", "call", "bin") and e[2] in ("0", "1"):
        # (a op b).0 of a checked-arithmetic pair, size_hint().0
        return _size_bounded(e[1])
    return False


def _sccs(g):
    import sys
    sys.setrecursionlimit(200000)
    idx, low, st, on, out, counter = {}, {}, [], set(), [], [0]

    def sc(v):
        idx[v] = low[v] = counter[0]
        counter[0] += 1
        st.append(v)
        on.add(v)
        for w in g.get(v, ()):
            if w not in idx:
                sc(w)
                low[v] = min(low[v], low[w])
            elif w in on:
                low[v] = min(low[v], idx[w])
        if low[v] == idx[v]:
            comp = []
            while True:
                w = st.pop()
                on.discard(w)
                comp.append(w)
                if w == v:
                    break
            if len(comp) > 1 or v in g.get(v, ()):
                out.append(comp)
    for v in g:
        if v not in idx:
            sc(v)
    return out
