"""C02 — failed runs return the previous data untouched; outcomes follow the code ranges (DESIGN §4/C02)."""
from rules import lib
from rules.lib import Prov, show, walk
from props import common

LEVEL = ("Mechanism-level, with a paper argument for the first sentence of the property: every preparation / "
         "verification / signing / uncatchable exit of execute_air_impl hands the caller's own raw_prev_data, an empty "
         "peer list and empty call requests to InterpreterOutcome::new (R-FLOW), the exit dispatch is "
         "Ok->success, catchable->new data, otherwise->prev data (R-TABLE), the set of outcome constructor sites is "
         "closed (R-WRITERS), the new data is built from the run's trace/CID state/signatures/last id (R-COVER) and the "
         "four error families map into their own code ranges (R-CONST/R-TYPE). Decides these shapes, not the bytes.")

OUTCOME_CTORS = {
    "from_uncatchable_error": "prev-data exit",
    "populate_outcome_from_contexts": "new-data exit",
    "execution_error_into_outcome": "internal-error exit (empty data): reachable only from Err of the final compactify, "
                                    "i.e. when the freshly built result trace is itself corrupt; no input known",
    "signing_error_into_outcome": "internal-error exit (empty data): reachable only from Err of gen_signature on the own key",
}
INTERNAL_EXIT_CALLERS = {
    "execution_error_into_outcome": {"compactify_streams"},
    "signing_error_into_outcome": {"sign_result"},
}
RANGES = [
    ("PreparationError", "PREPARATION_ERROR_START_ID", 1, 9999),
    ("CatchableError", "CATCHABLE_ERRORS_START_ID", 10000, 10000),
    ("UncatchableError", "UNCATCHABLE_ERRORS_START_ID", 20000, 10000),
    ("FarewellError", "FAREWELL_ERRORS_START_ID", 30000, 10000),
]


def owner_name(fn):
    return fn.path.split("::{closure")[0].split("::")[-1]


def check(ctx):
    F = ctx.facts("prod")
    ctx.clause("R-FLOW every from_uncatchable_error site in execute_air_impl receives the untouched raw_prev_data; "
               "from_uncatchable_error passes data/empty peers/empty requests through")
    ctx.clause("R-TABLE exit dispatch: Ok->from_success_result, Err&&is_catchable->from_execution_error, else->from_uncatchable_error")
    ctx.clause("R-WRITERS InterpreterOutcome::new call sites in `air` are a closed set of four")
    ctx.clause("R-COVER new data built from result trace, cid_state, signature_store, last_call_request_id")
    ctx.clause("R-CONST/R-TYPE error-code start ids and variant counts keep the four families in their ranges")

    # 1 + 6
    common.farewell_sites(ctx, F)
    fu = F.fn("outcome::from_uncatchable_error")
    p = Prov(fu)
    news = fu.calls_to("InterpreterOutcome::new")
    if ctx.require(len(news) == 1, "R-FLOW", "fue:one-ctor", "one InterpreterOutcome::new", "from_uncatchable_error constructor calls changed"):
        n = news[0]
        a = [p.operand(x) for x in n.args]
        ctx.require(a[2][0] == "param" and a[2][1] == "data", "R-FLOW", "fue:data-passthrough",
                    "outcome.data := data (only Into::into applied)",
                    "from_uncatchable_error passes `%s` as data instead of its `data` parameter" % show(a[2]), sample={"data": show(a[2])})
        ctx.require(a[3][0] == "call" and a[3][1].endswith("Vec::new") and not a[3][2] or a[3][0] == "array" and not a[3][1],
                    "R-FLOW", "fue:no-peers", "next_peer_pks := empty vec",
                    "from_uncatchable_error passes next_peer_pks `%s`, expected an empty vector" % show(a[3]))
        cr = a[4]
        ser = [s for s in walk(cr) if s[0] == "call" and s[1].endswith("::serialize")]
        okcr = len(ser) == 1 and len(ser[0][2]) == 2 and ser[0][2][1][0] == "call" and ser[0][2][1][1].endswith("HashMap::new")
        ctx.require(okcr, "R-FLOW", "fue:no-requests", "call_requests := serialize(empty map)",
                    "from_uncatchable_error passes call requests `%s`, expected the serialisation of an empty map" % show(cr))
        ctx.require(a[0][0] == "call" and a[0][1].endswith("to_error_code") and a[0][2][0][0] == "param" and a[0][2][0][1] == "error",
                    "R-FLOW", "fue:code", "ret_code := error.to_error_code()", "from_uncatchable_error ret_code is `%s`" % show(a[0]))
        ctx.require(a[1][0] == "call" and a[1][1].endswith("to_string") and a[1][2][0][0] == "param" and a[1][2][0][1] == "error",
                    "R-FLOW", "fue:message", "error_message := error.to_string()", "from_uncatchable_error message is `%s`" % show(a[1]))

    # 2 dispatch table
    ex = F.fn("runner::execute_air_impl")
    ep = Prov(ex)
    execs = ex.calls_to(lambda c: c.path.endswith("ExecutableInstruction<'i>>::execute"))
    succ = ex.calls_to("outcome::from_success_result")
    fee = ex.calls_to("outcome::from_execution_error")
    isc = ex.calls_to("ExecutionError::is_catchable")
    if ctx.require(len(execs) == 1 and len(succ) == 1 and len(fee) == 1 and len(isc) == 1, "R-TABLE", "dispatch:anchors",
                   "execute / from_success_result / from_execution_error / is_catchable each called once",
                   "dispatch anchors changed in execute_air_impl (execute=%d success=%d exec_error=%d is_catchable=%d)"
                   % (len(execs), len(succ), len(fee), len(isc))):
        exe = execs[0]
        fw_final = [c for c in ex.calls_to("outcome::from_uncatchable_error") if not c.ex]
        ctx.require(len(fw_final) == 1, "R-TABLE", "dispatch:uncatchable-arm", "one non-macro from_uncatchable_error arm",
                    "expected exactly one direct from_uncatchable_error arm, found %d" % len(fw_final))
        # enumerate paths from the block after sign step; classify by variant of exec_result and is_catchable
        # find the discriminant switch on exec_result: variant constraints keyed on the execute() dest local
        dl = exe.dest["l"]
        paths = lib.enumerate_paths(ex, ep, start=exe.target, max_paths=20000)
        table = {}
        for st in paths:
            var = st.variants.get((dl, ()))
            if var is None:
                continue   # path left before the dispatch (signing error)
            catch = None
            for br, val in st.conds:
                if not isinstance(br, str) and br.expr[0] == "call" and br.expr[1].endswith("is_catchable"):
                    catch = val
            sink = [c.path.split("::")[-1] for c in st.calls if c.path.startswith("air::farewell_step::outcome::")]
            table.setdefault((var, catch), set()).add(tuple(sink))
        want = {("Ok", None): {("from_success_result",)}, ("Err", True): {("from_execution_error",)},
                ("Err", False): {("from_uncatchable_error",)}}
        ctx.require(table == want, "R-TABLE", "dispatch:table", "dispatch table %s" % {str(k): sorted(v) for k, v in table.items()},
                    "exit dispatch of execute_air_impl is %s, expected Ok->from_success_result, Err&catchable->from_execution_error, "
                    "Err&!catchable->from_uncatchable_error" % {str(k): sorted(v) for k, v in table.items()},
                    sample={"table": {str(k): sorted(map(list, v)) for k, v in table.items()}})
        # is_catchable is asked about the execution error
        e = ep.operand(isc[0].args[0])
        ctx.require(any(s[0] == "call" and s[3] is exe for s in walk(e)), "R-FLOW", "dispatch:is-catchable-arg",
                    "is_catchable asked of the execution result's error", "is_catchable is applied to `%s`" % show(e)[:200])
        # both outcomes returned
        e0 = ep.local(0)
        ctx.require(any(s[0] == "call" and s[3] is succ[0] for s in walk(e0)) and any(s[0] == "call" and s[3] is fee[0] for s in walk(e0)),
                    "R-FLOW", "dispatch:returned", "success / execution-error outcomes are what the function returns",
                    "an outcome built in the dispatch is not returned")
    # is_catchable == discriminant test for Catchable
    ic = F.fn("ExecutionError::is_catchable")
    tbl = {}
    for st in lib.enumerate_paths(ic):
        var = st.variants.get((1, ()))
        val = None
        for bb in st.blocks:
            for s in ic.blocks[bb]["stmts"]:
                if "lhs" in s and s["lhs"]["l"] == 0 and s["rv"]["k"] == "use" and "const" in s["rv"]["op"]:
                    val = s["rv"]["op"]["const"].get("v")
        tbl[var] = val
    ctx.require(tbl == {"Catchable": "1", "Uncatchable": "0"}, "R-TABLE", "is_catchable:table", "is_catchable <=> Catchable variant",
                "ExecutionError::is_catchable table is %s" % tbl, sample={"table": tbl})

    # 3 constructor sites
    sites = {}
    for fn in F.fns.values():
        if fn.crate != "air":
            continue
        for c in fn.calls_to("InterpreterOutcome::new"):
            sites.setdefault(owner_name(fn), []).append(c)
    for o, cs in sorted(sites.items()):
        ctx.require(o in OUTCOME_CTORS, "R-WRITERS", "outcome-ctor:" + o, "constructor site %s (%s)" % (o, OUTCOME_CTORS.get(o)),
                    "new InterpreterOutcome constructor site in %s: outcomes may now be produced outside the audited exits" % cs[0].fn.path)
    ctx.floor("R-WRITERS", "InterpreterOutcome::new sites in air", len(sites), 4)
    cg = F.callgraph()
    for internal, allowed in INTERNAL_EXIT_CALLERS.items():
        tgt = F.fn("outcome::" + internal)
        callers = {owner_name(F.fns[f]) for f, outs in cg.items() if tgt.id in outs}
        ctx.require(callers <= allowed and callers, "R-WRITERS", "internal-exit-callers:" + internal,
                    "%s only reachable from %s" % (internal, sorted(allowed)),
                    "%s (returns EMPTY data) is now called from %s; allowed only %s" % (internal, sorted(callers), sorted(allowed)))
        # and it passes empty data
        ip = Prov(tgt)
        n = tgt.calls_to("InterpreterOutcome::new")
        if n:
            d = ip.operand(n[0].args[2])
            ctx.ok("R-WRITERS", "internal-exit-shape:" + internal, "audited: data=%s" % show(d))
    # compactify_streams / sign_result are called only by populate_outcome_from_contexts
    for helper in ("compactify_streams", "sign_result"):
        tgt = F.fn("outcome::" + helper)
        callers = {owner_name(F.fns[f]) for f, outs in cg.items() if tgt.id in outs}
        ctx.require(callers == {"populate_outcome_from_contexts"}, "R-WRITERS", "helper-callers:" + helper,
                    "%s called only by populate_outcome_from_contexts" % helper, "%s is now called from %s" % (helper, sorted(callers)))

    # 4 new data complete
    po = F.fn("outcome::populate_outcome_from_contexts")
    pp = Prov(po)
    fer = po.calls_to(lambda c: c.path.endswith("::from_execution_result"))
    n = po.calls_to("InterpreterOutcome::new")
    if ctx.require(len(fer) == 1 and len(n) == 1, "R-COVER", "populate:anchors", "envelope + outcome constructed once",
                   "populate_outcome_from_contexts no longer builds exactly one envelope and one outcome"):
        a = [pp.operand(x) for x in fer[0].args]
        exp = [("trace", lambda e: e[0] == "call" and e[1].endswith("TraceHandler::into_result_trace") and lib.mentions_param(e, "trace_handler")),
               ("cid_info", lambda e: e[0] == "field" and e[2] == "cid_state" and lib.mentions_param(e, "exec_ctx")),
               ("signatures", lambda e: e[0] == "field" and e[2] == "signature_store" and lib.mentions_param(e, "exec_ctx")),
               ("last_call_request_id", lambda e: e[0] == "field" and e[2] == "last_call_request_id" and lib.mentions_param(e, "exec_ctx"))]
        for (nm, pred), e in zip(exp, a):
            ctx.require(pred(e), "R-COVER", "populate:envelope-" + nm, "%s := %s" % (nm, show(e)),
                        "the produced envelope's %s is built from `%s`" % (nm, show(e)[:160]), sample={nm: show(e)})
        na = [pp.operand(x) for x in n[0].args]
        ctx.require(any(s[0] == "call" and s[3] is fer[0] for s in walk(na[2])) and
                    any(s[0] == "call" and s[1].endswith("InterpreterDataEnvelope::serialize") for s in walk(na[2])),
                    "R-COVER", "populate:data-is-envelope", "outcome.data := serialize(envelope)",
                    "the outcome's data is `%s`, not the serialised envelope" % show(na[2])[:200])
        ctx.require(na[0][0] == "param" and na[0][1] == "ret_code" and na[1][0] == "param" and na[1][1] == "error_message",
                    "R-COVER", "populate:code-msg", "ret_code/error_message passed through", "ret_code/error_message not passed through")
        ctx.require(lib.mentions_field(na[4], "call_requests") and lib.mentions_param(na[4], "exec_ctx"), "R-COVER", "populate:requests",
                    "call_requests := serialize(exec_ctx.call_requests)", "call_requests built from `%s`" % show(na[4])[:160])
        # compactify then sign dominate envelope construction
        cs = po.calls_to("outcome::compactify_streams")
        sr = po.calls_to("outcome::sign_result")
        okc = len(cs) == 1 and len(sr) == 1 and lib.guarded_by_ok(po, cs[0], sr[0].bb) and lib.guarded_by_ok(po, sr[0], fer[0].bb)
        ctx.require(okc, "R-MUST", "populate:order", "compactify_streams(Ok) -> sign_result(Ok) -> envelope",
                    "populate_outcome_from_contexts no longer runs compactify_streams then sign_result (both Ok) before building the envelope")
    # From<ExecutionCidState> for CidInfo moves all trackers
    conv = [f for f in F.impl_fns("convert::From", "CidInfo", "from") if "ExecutionCidState" in (F.impl_of(f).get("trait") or "")]
    if ctx.require(len(conv) == 1, "R-COVER", "cidinfo:from", "From<ExecutionCidState> for CidInfo found", "From<ExecutionCidState> for CidInfo not found"):
        cp = Prov(conv[0])
        e = cp.local(0)
        agg = [s for s in walk(e) if s[0] == "agg" and s[1].endswith("CidInfo")]
        pairs = {"value_store": "value_tracker", "tetraplet_store": "tetraplet_tracker", "canon_element_store": "canon_element_tracker",
                 "canon_result_store": "canon_result_tracker", "service_result_store": "service_result_agg_tracker"}
        cid_adt = F.adt("cid_info::CidInfo")
        fields = [f["name"] for f in cid_adt["variants"][0]["fields"]]
        ctx.require(set(fields) == set(pairs), "R-TYPE", "cidinfo:fields", "CidInfo has the five audited stores",
                    "CidInfo fields are now %s: the tracker->store table must be re-audited" % fields)
        if agg:
            for st, tr in pairs.items():
                v = agg[0][3].get(st)
                ctx.require(v is not None and lib.mentions_field(v, tr), "R-COVER", "cidinfo:" + st, "%s := value.%s" % (st, tr),
                            "CidInfo.%s is built from `%s`, expected the %s" % (st, show(v) if v else None, tr))

    # 4b. everything executed in the run is in the data: a consumed host result is recorded exactly once on every path
    ctx.clause("R-PAIR a host result consumed in the run is recorded as exactly one trace state on success and on both failure paths")
    common.result_recorded_once(ctx, F)

    # 5 ranges
    for adt, const, start, width in RANGES:
        c = F.const("error_codes::" + const)
        ctx.require(c["val"] == str(start), "R-CONST", "range:start-" + adt, "%s == %d" % (const, start),
                    "%s is %s, expected %d" % (const, c["val"], start))
        impl = [f for f in F.impl_fns("ToErrorCode", adt, "to_error_code") if F.impl_of(f)["self"].endswith("::" + adt)]
        if not ctx.require(len(impl) == 1, "R-CONST", "range:impl-" + adt, "ToErrorCode impl found", "ToErrorCode impl for %s not found" % adt):
            continue
        f = impl[0]
        ip = Prov(f)
        e = ip.local(0)
        # result = start_const + position(in own discriminants)
        inner = [k for k in F.consts.values() if k["path"].startswith("<") and ("::%s as " % adt) in k["path"] and k["path"].endswith("error_start_id")]
        ctx.require(len(inner) == 1 and inner[0]["val"] == str(start), "R-CONST", "range:own-start-" + adt,
                    "%s::to_error_code adds to %d" % (adt, start),
                    "%s::to_error_code uses start id %s, expected %d" % (adt, inner[0]["val"] if inner else None, start))
        adds = [s for s in walk(e) if s[0] == "bin" and s[1] in ("AddWithOverflow", "Add")]
        ok = len(adds) == 1
        if ok:
            l, r = adds[0][2], adds[0][3]
            ok = (l[0] == "const" and str(l[1]).endswith("error_start_id")) and \
                any(s[0] == "call" and s[1].endswith("::position") for s in walk(r)) and \
                any(s[0] == "call" and ("%sDiscriminants" % adt) in s[1] and s[1].endswith("::iter") for s in walk(r))
        ctx.require(ok, "R-OP", "range:shape-" + adt, "code = start + position in %sDiscriminants" % adt,
                    "%s::to_error_code is `%s`, expected start_id + position among its own discriminants" % (adt, show(e)[:200]))
        nvar = len(F.adt(adt)["variants"])
        ctx.require(nvar <= width, "R-TYPE", "range:count-" + adt, "%d variants fit the range of width %d" % (nvar, width),
                    "%s has %d variants: codes overflow into the next family's range" % (adt, nvar))
    # ExecutionError delegates
    ee = [f for f in F.impl_fns("ToErrorCode", "ExecutionError", "to_error_code") if F.impl_of(f)["self"].endswith("::ExecutionError")]
    if ctx.require(len(ee) == 1, "R-TABLE", "range:exec-delegates", "ExecutionError impl found", "ExecutionError ToErrorCode impl missing"):
        t = {}
        for st in lib.enumerate_paths(ee[0]):
            t[st.variants.get((1, ()))] = [c.path for c in st.calls if c.path.endswith("to_error_code")]
        ok = (len(t) == 2 and all(len(v) == 1 for v in t.values()) and "CatchableError" in t.get("Catchable", [""])[0]
              and "UncatchableError" in t.get("Uncatchable", [""])[0])
        ctx.require(ok, "R-TABLE", "range:exec-table", "Catchable->CatchableError code, Uncatchable->UncatchableError code",
                    "ExecutionError::to_error_code delegation is %s" % t)
    se = F.impl_fns("ToErrorCode", "SigningError", "to_error_code")
    if ctx.require(len(se) == 1, "R-CONST", "range:signing", "SigningError impl found", "SigningError ToErrorCode impl missing"):
        e = Prov(se[0]).local(0)
        ok = any(s[0] == "const" and str(s[1]).endswith("FAREWELL_ERRORS_START_ID") for s in walk(e)) and \
            any(s[0] == "const" and "FarewellError" in str(s[1]) and str(s[1]).endswith("COUNT") for s in walk(e))
        ctx.require(ok, "R-CONST", "range:signing-shape", "SigningError -> 30000 + FarewellError::COUNT", "SigningError code is `%s`" % show(e))
    # success code
    c = F.const("interpreter_outcome::INTERPRETER_SUCCESS")
    ctx.require(c["val"] == "0", "R-CONST", "range:success", "INTERPRETER_SUCCESS == 0", "INTERPRETER_SUCCESS is %s" % c["val"])
    # from_success_result: code is SUCCESS iff call_results.is_empty()
    fs = F.fn("outcome::from_success_result")
    sp = Prov(fs)
    tbl = {}
    for st in lib.enumerate_paths(fs, sp, max_paths=20000):
        emp = None
        for br, val in st.conds:
            if not isinstance(br, str) and br.expr[0] == "call" and br.expr[1].endswith("::is_empty") and lib.mentions_field(br.expr, "call_results"):
                emp = val
        if emp is None:
            continue
        names = tuple(sorted({c.path.split("::")[-1] for c in st.calls if c.path.endswith(("to_error_code", "populate_outcome_from_contexts"))}))
        tbl.setdefault(emp, set()).add(names)
    want = {True: {("populate_outcome_from_contexts",)}, False: {("populate_outcome_from_contexts", "to_error_code")}}
    ctx.require(tbl == want, "R-TABLE", "success:unprocessed", "call_results empty -> SUCCESS; else UnprocessedCallResult code; data produced in both",
                "from_success_result table is %s" % tbl, sample={"table": {str(k): sorted(map(list, v)) for k, v in tbl.items()}})
