"""C04 — honest executions never hit data-consistency errors, whatever the schedule (DESIGN §4/C04, revised in §14)."""
from rules import lib
from props import mergetab, sides

LEVEL = ("Mechanism level, positional bookkeeping only: the clauses whose breach makes two HONEST traces stop lining up "
         "during a merge — both sliders advance in lock-step and every merger's row table is exhaustive and kind-checked; the "
         "scheme handed on with a merged state names the side(s) it was met on; the position maps are filled per scheme from "
         "each side's own slider and read back by the fold FSM with the matching fold lore; the fold-lore applier positions "
         "each side's slider on the before/after half of the phase it is asked for; no value of one side flows into a sink "
         "named for the other (R-SIDES). Each clause is a necessary condition (a seeded breach of each makes an honest "
         "multi-peer run fail with a merge / parameter-mismatch error under some delivery order). The arithmetic of par / "
         "fold sizes and slider windows over all program shapes and schedules is NOT decided.")
TECHNIQUE = "decision-table extraction from MIR (mergers, scheme hand-over, position maps, fold-lore phases) + lock-step must-call + previous/current side-discipline lint"


def check(ctx):
    F = ctx.facts("prod")
    sides.check_sides(ctx, F)
    ctx.clause("R-TABLE/R-MUST the five state mergers: exhaustive kind-checked rows, both sliders advanced exactly once per merge (lock-step)")
    mergetab.mergers_rows_and_lockstep(ctx, F)
    ctx.clause("R-TABLE the scheme handed on with a merged state names the side(s) it was met on (call and ap mergers, merge_call_results)")
    mergetab.row_scheme_agrees(ctx, F)
    mergetab.call_scheme_agrees(ctx, F)
    ctx.clause("R-TABLE position maps filled per scheme from each side's own slider; the fold FSM reads them back with the matching lore")
    mergetab.positions_mapping_table(ctx, F)
    ctx.clause("R-TABLE fold-lore applier: (side x phase) table")
    mergetab.fold_lore_phases(ctx, F)
