"""C03 — every produced data is accepted and verifiable by any other peer (DESIGN §4/C03)."""
from rules import lib
from rules.lib import Prov, show, walk
from props import common

LEVEL = ("Mechanism level: sign-what-you-write pairing (every freshly tracked service-result / canon-result CID that is "
         "written into the trace is also recorded for signing, with the result's own peer), re-emitted CID-carrying states "
         "are re-recorded, new states only reference CIDs returned by the trackers, the trackers insert every component, "
         "compactify -> sign -> envelope order, and signer/verifier agree on serialisation, sorting and salt. "
         "Acceptance for all histories and correctness of crypto crates are not decided."
         " Added: signer and verifier reshape the CID list identically (one sort each, no dedup/truncate); a seen canon is re-recorded for signing through any thin helper.")

FRESH_SITES = {
    # function -> number of track_service_result sites confirmed by reading
    "prev_result_handler::handle_service_error": 1,
    "prev_result_handler::try_to_service_result": 1,
    "call_result_setter::populate_context_from_peer_service_result": 2,
}


def check(ctx):
    F = ctx.facts("prod")
    ctx.clause("R-PAIR/R-SIBLING every track_service_result CID is record_call_cid'ed (same CID, result's peer) before the function leaves normally; canon likewise")
    ctx.clause("R-TABLE handle_prev_state re-records CIDs of re-emitted Failed / Executed(Scalar|Stream) states")
    ctx.clause("R-FLOW CIDs in new states derive from tracker return values")
    ctx.clause("R-MUST trackers insert value, tetraplet and aggregate")
    ctx.clause("R-MUST compactify -> sign_result -> envelope; signature stored under keypair.public()")
    ctx.clause("R-SIBLING signer and verifier: SaltedData::new(cids, salt).serialize(), both sort, salt = particle_id")

    reach, _ = F.reachable_fns([F.fn("runner::execute_air")])
    # 1. fresh CIDs
    seen_sites = {}
    for fid in sorted(reach):
        fn = F.fns[fid]
        if fn.crate != "air":
            continue
        ts = fn.calls_to("ExecutionCidState::track_service_result")
        if not ts:
            continue
        p = Prov(fn)
        oq = common.owner_qual(fn)
        seen_sites[oq] = len(ts)
        recs = fn.calls_to("ExecutionCtx::record_call_cid")
        for i, t in enumerate(ts):
            okb = lib.result_edges(fn, t).get("ok")
            key = "fresh:%s#%d" % (oq, i)
            mine = [r for r in recs if any(s[0] == "call" and s[3] is t for s in walk(p.operand(r.args[2])))]
            if not ctx.require(bool(mine), "R-PAIR", key + ":recorded", "CID from track_service_result is passed to record_call_cid",
                               "%s: the CID returned by track_service_result (#%d) is written to the trace but never recorded for signing "
                               "(record_call_cid): the run's signature will not cover a result attributed to this peer, and other peers reject the data"
                               % (fn.path, i), sample={"fn": fn.path, "site": t.loc()}):
                continue
            # every normal path from the ok edge to return passes a record call (error propagation exits excluded)
            exits_via_residual = {c.bb for c in fn.calls if lib.is_from_residual(c.path)}
            ok = okb is not None and fn.must_pass(okb, [r.bb for r in mine] + list(exits_via_residual))
            ctx.require(ok, "R-PAIR", key + ":all-paths", "every non-error path after tracking records the CID",
                        "%s: after track_service_result (#%d) there is a normal path to return that skips record_call_cid" % (fn.path, i))
            for r in mine:
                pe = p.operand(r.args[1])
                ctx.require(lib.mentions_field(pe, "peer_pk") and (lib.mentions_param(pe, "tetraplet") or lib.mentions_field(pe, "tetraplet")),
                            "R-FLOW", key + ":peer", "recorded under the result tetraplet's peer_pk", "%s records the CID under `%s`" % (fn.path, show(pe)[:100]))
        # new states reference that CID
        for c in fn.calls:
            if c.path.endswith(("CallResult>::failed", "CallResult>::executed_scalar", "CallResult>::executed_stream_stub")):
                a = p.operand(c.args[0])
                ctx.require(any(s[0] == "call" and s[1].endswith("track_service_result") for s in walk(a)), "R-FLOW",
                            "state-cid:%s:%s" % (oq, c.path.split("::")[-1]), "%s(cid) uses the tracker's CID" % c.path.split("::")[-1],
                            "%s builds %s from `%s`, not from the CID returned by track_service_result" % (fn.path, c.path.split("::")[-1], show(a)[:120]))
        for bi, si, s in fn.stmts():
            rv = s["rv"]
            if rv["k"] == "agg" and rv.get("kind") == "adt" and rv["adt"].endswith("CallResult") and rv["variant"] == "Failed" and ts:
                a = p.operand(rv["ops"][0])
                ctx.require(any(x[0] == "call" and x[1].endswith("track_service_result") for x in walk(a)), "R-FLOW", "state-cid:%s:Failed-agg" % oq,
                            "Failed(cid) uses the tracker's CID", "%s builds Failed from `%s`" % (fn.path, show(a)[:120]))
    for o, n in FRESH_SITES.items():
        ctx.floor("R-PAIR", "track_service_result sites in " + o, seen_sites.get(o, 0), n)
    for o in seen_sites:
        ctx.require(o in FRESH_SITES, "R-PAIR", "fresh:site-known:" + o, "audited producer of fresh service results",
                    "new producer of service-result CIDs: %s (audited producers: %s)" % (o, sorted(FRESH_SITES)))
    # canon fresh
    pu = F.fn("canon_utils::populate_unseen_cid_context")
    pp = Prov(pu)
    tv = [c for c in pu.calls_to("CidTracker::track_value") if lib.mentions_field(pp.operand(c.args[0]), "canon_result_tracker")]
    rc = pu.calls_to("ExecutionCtx::record_canon_cid")
    ok = len(tv) == 1 and len(rc) == 1 and any(s[0] == "call" and s[3] is tv[0] for s in walk(pp.operand(rc[0].args[2])))
    ctx.require(ok, "R-PAIR", "fresh-canon:recorded", "canon result CID tracked and recorded", "populate_unseen_cid_context no longer records the tracked canon result CID")
    if ok:
        okb = lib.result_edges(pu, tv[0]).get("ok")
        ctx.require(okb is not None and pu.must_pass(okb, [rc[0].bb] + [c.bb for c in pu.calls if lib.is_from_residual(c.path)]), "R-PAIR", "fresh-canon:all-paths",
                    "record_canon_cid on every non-error path", "populate_unseen_cid_context can return Ok without recording the canon CID")
        pe = pp.operand(rc[0].args[1])
        ctx.require(lib.mentions_field(pe, "peer_pk") and lib.mentions_call(pe, "CanonStream::tetraplet"), "R-FLOW", "fresh-canon:peer", "recorded under the canon tetraplet's peer",
                    "record_canon_cid peer is `%s`" % show(pe))
        r0 = pp.local(0)
        ctx.require(any(s[0] == "agg" and s[2] == "Ok" and any(x[0] == "call" and x[3] is tv[0] for x in walk(s)) for s in walk(r0)), "R-FLOW", "fresh-canon:returned",
                    "returns the tracked CID", "populate_unseen_cid_context returns `%s`" % show(r0)[:120])
    # a seen (already executed) canon is re-recorded for signing before its epilog runs — directly or through a thin helper
    hce = F.fn("canon_utils::handle_canon_executed")
    hp = Prov(hce)
    fw = lib.forwarding_calls(F, hce, "ExecutionCtx::record_canon_cid")
    ok = len(fw) == 1
    if ok:
        sc0, amap = fw[0]
        ok = 1 in amap and 2 in amap and lib.mentions_param(hp.operand(sc0.args[amap[2]]), "canon_result_cid") and lib.mentions_field(hp.operand(sc0.args[amap[1]]), "peer_pk")
    ctx.require(ok, "R-PAIR", "seen-canon:recorded", "handle_canon_executed records (stored tetraplet's peer_pk, the met canon_result_cid) with record_canon_cid",
                "handle_canon_executed no longer records the met canon result CID for signing (record_canon_cid with the stored tetraplet's peer and the met CID)")
    ind = [c for c in hce.calls if c.kind == "indirect" or c.path.endswith("Fn<Args>>::call") or "ops::function::Fn" in c.path]
    ok = ok and ind and all(hce.dominates(fw[0][0].bb, c.bb) for c in ind)
    ctx.require(ok, "R-PAIR", "seen-canon:before-epilog", "seen canon CID recorded (with the stored tetraplet's peer) before the epilog runs",
                "handle_canon_executed no longer records the canon CID before running the epilog")

    # 1b. re-emitted states
    h = F.fn("prev_result_handler::handle_prev_state")
    rows = {}
    for st in lib.enumerate_paths(h, max_paths=60000):
        top = [v for k, v in st.variants.items() if k[0] == 1 and v in ("Failed", "RequestSentBy", "Executed")]
        if not top:
            continue
        ends = lib.path_calls(st, "TraceHandler::meet_call_end")
        if not ends:
            continue
        vk = [v for k, v in st.variants.items() if v in ("Scalar", "Stream", "Unused")]
        rec = len(lib.path_calls(st, "ExecutionCtx::record_call_cid"))
        # order: record precedes meet_call_end
        order_ok = True
        if rec:
            idx_r = max(i for i, c in enumerate(st.calls) if c.path.endswith("record_call_cid"))
            idx_e = min(i for i, c in enumerate(st.calls) if c.path.endswith("meet_call_end"))
            order_ok = idx_r < idx_e
        rows.setdefault((top[0], vk[-1] if (vk and top[0] == "Executed") else None), set()).add((rec, order_ok))
    want = {("Failed", None): {(1, True)}, ("Executed", "Scalar"): {(1, True)}, ("Executed", "Stream"): {(1, True)}, ("Executed", "Unused"): {(0, True)}}
    for k, v in want.items():
        ctx.require(rows.get(k) == v, "R-TABLE", "reemit:%s/%s" % k, "re-emitted %s%s state: record_call_cid x%d before meet_call_end" % (k[0], ("(" + k[1] + ")") if k[1] else "", list(v)[0][0]),
                    "handle_prev_state re-emits a %s/%s state with record_call_cid pattern %s" % (k[0], k[1], sorted(rows.get(k, []))))
    hp2 = Prov(h)
    for r in h.calls_to("ExecutionCtx::record_call_cid"):
        pe = hp2.operand(r.args[1])
        ce = hp2.operand(r.args[2])
        ctx.require(lib.mentions_field(pe, "peer_pk") and lib.mentions_param(pe, "tetraplet") and lib.mentions_param(ce, "met_result"), "R-FLOW", "reemit:args",
                    "record_call_cid(&tetraplet.peer_pk, cid of the met state)", "handle_prev_state records (%s, %s)" % (show(pe)[:60], show(ce)[:60]))

    # 3. trackers
    t = F.fn("cid_state::ExecutionCidState::track_service_result")
    tp = Prov(t)
    e0 = tp.local(0)
    parts = {"value": lambda s: s[0] == "call" and s[1].endswith("track_raw_value") and lib.mentions_field(s[2][0], "value_tracker") and lib.mentions_param(s, "value"),
             "tetraplet": lambda s: s[0] == "call" and s[1].endswith("track_value") and lib.mentions_field(s[2][0], "tetraplet_tracker") and lib.mentions_param(s, "tetraplet"),
             "aggregate": lambda s: s[0] == "call" and s[1].endswith("track_value") and lib.mentions_field(s[2][0], "service_result_agg_tracker")}
    for nm, pred in parts.items():
        ctx.require(any(pred(s) for s in walk(e0)), "R-MUST", "track_service_result:" + nm, "returned CID's aggregate includes the tracked %s" % nm,
                    "track_service_result no longer tracks the %s into its store" % nm)
    agg = [s for s in walk(e0) if s[0] == "call" and s[1].endswith("ServiceResultCidAggregate>::new")]
    ok = len(agg) >= 1 and agg[0][2][1][0] == "param" and agg[0][2][1][1] == "argument_hash"
    ctx.require(ok, "R-FLOW", "track_service_result:argument_hash", "aggregate carries the given argument hash", "ServiceResultCidAggregate built with `%s`" % (show(agg[0][2][1]) if agg else None))
    t2 = F.fn("cid_state::ExecutionCidState::track_canon_value")
    e2 = Prov(t2).local(0)
    for nm, fld in (("value", "value_tracker"), ("tetraplet", "tetraplet_tracker"), ("element", "canon_element_tracker")):
        ctx.require(any(s[0] == "call" and "track" in s[1] and lib.mentions_field(s[2][0], fld) for s in walk(e2)), "R-MUST", "track_canon_value:" + nm,
                    "canon element CID includes the tracked %s" % nm, "track_canon_value no longer tracks the %s" % nm)
    r0 = pp.local(0)
    for nm, fld in (("tetraplet", "tetraplet_tracker"), ("result", "canon_result_tracker")):
        ctx.require(any(s[0] == "call" and s[1].endswith("track_value") and lib.mentions_field(s[2][0], fld) for s in walk(r0)), "R-MUST", "populate_unseen:" + nm,
                    "canon result CID includes the tracked %s" % nm, "populate_unseen_cid_context no longer tracks the %s" % nm)
    ctx.require(any(s[0] == "call" and s[1].endswith("track_canon_value") for f in F.closures_of(pu) for s in walk(Prov(f).local(0))), "R-MUST", "populate_unseen:elements",
                "every canon element is tracked (track_canon_value in the map closure)", "populate_unseen_cid_context no longer tracks canon elements")
    # CidTracker::track_value inserts what it hashes
    tv_ = F.fn("cid_store::CidTracker::track_value")
    vp = Prov(tv_)
    ins = tv_.calls_to("HashMap::insert")
    ok = len(ins) == 1 and lib.mentions_call(vp.operand(ins[0].args[1]), "value_to_json_cid") and all(tv_.dominates(ins[0].bb, b) for b in
                                                                                                       [bi for bi, si, s in tv_.stmts() if s["lhs"]["l"] == 0 and s["rv"]["k"] == "agg" and s["rv"].get("variant") == "Ok"])
    ctx.require(ok, "R-MUST", "tracker:insert", "track_value stores the value under the CID it returns", "CidTracker::track_value no longer stores the value under its CID")

    # 4. order + signature slot
    po = F.fn("outcome::populate_outcome_from_contexts")
    cs, sr = po.calls_to("outcome::compactify_streams"), po.calls_to("outcome::sign_result")
    fer = po.calls_to(lambda c: c.path.endswith("::from_execution_result"))
    ok = len(cs) == 1 and len(sr) == 1 and len(fer) == 1 and lib.guarded_by_ok(po, cs[0], sr[0].bb) and lib.guarded_by_ok(po, sr[0], fer[0].bb)
    ctx.require(ok, "R-MUST", "outcome:order", "compactify_streams(Ok) -> sign_result(Ok) -> envelope", "populate_outcome_from_contexts order changed")
    sg = F.fn("outcome::sign_result")
    gp = Prov(sg)
    put = sg.calls_to("SignatureStore::put")
    ok = len(put) == 1
    if ok:
        a = [gp.operand(x) for x in put[0].args]
        ok = lib.mentions_field(a[0], "signature_store") and a[1][0] == "call" and a[1][1].endswith("KeyPair::public") and lib.mentions_call(a[2], "gen_signature")
        gs = sg.calls_to("PeerCidTracker::gen_signature")
        ok = ok and len(gs) == 1 and lib.mentions_field(gp.operand(gs[0].args[0]), "peer_cid_tracker") and lib.mentions_field(gp.operand(gs[0].args[1]), "salt") \
            and lib.guarded_by_ok(sg, gs[0], put[0].bb)
    ctx.require(ok, "R-FLOW", "outcome:signature-slot", "signature_store.put(keypair.public(), gen_signature(peer_cid_tracker, run_parameters.salt))",
                "sign_result no longer stores the tracker's signature under the own public key")
    rp = F.fn("context::RcRunParameters::from_run_parameters")
    e = Prov(rp).local(0)
    agg = [s for s in walk(e) if s[0] == "agg" and s[1].endswith("RcRunParameters")]
    ctx.require(len(agg) == 1 and lib.mentions_field(agg[0][3]["salt"], "particle_id"), "R-FLOW", "salt:run-parameters", "run_parameters.salt := particle_id", "RcRunParameters.salt no longer particle_id")
    # record goes to the tracker; tracker registers only own peer
    for nm in ("record_call_cid", "record_canon_cid"):
        f = F.fn("context::ExecutionCtx::" + nm)
        fp = Prov(f)
        rg = f.calls_to("PeerCidTracker::register")
        ok = len(rg) == 1 and lib.mentions_field(fp.operand(rg[0].args[0]), "peer_cid_tracker") and fp.operand(rg[0].args[1])[0] == "param" and fp.operand(rg[0].args[2])[0] == "param"
        ctx.require(ok, "R-FLOW", "record:" + nm, "%s forwards (peer, cid) to peer_cid_tracker.register" % nm, "%s no longer registers with the peer CID tracker" % nm)
    rg = F.fn("trackers::PeerCidTracker::register")
    rgp = Prov(rg)
    push = rg.calls_to("Vec::push")
    g = None
    if push:
        for br, rel in lib.guards_of(rg, push[0].bb, rgp):
            if rel and (rel[0] == "==" or (rel[0] == "bool" and rel[2] is True and br.expr[0] == "call" and br.expr[1].endswith("::eq"))):
                g = show(br.expr)
    ctx.require(len(push) == 1 and g is not None and "current_peer_id" in g and "peer" in g, "R-GUARD", "register:own-only", "CID pushed iff peer == current_peer_id (%s)" % g,
                "PeerCidTracker::register no longer pushes exactly the current peer's CIDs")

    # 5. sign/verify agree
    sc_ = F.fn("trackers::sign_cids")
    pv = F.fn("air_interpreter_signatures::PublicKey::verify")
    for fn, who in ((sc_, "signer"), (pv, "verifier")):
        fp = Prov(fn)
        ser = fn.calls_to("SaltedData::serialize")
        new = fn.calls_to("SaltedData::new")
        ok = len(ser) == 1 and len(new) == 1 and fp.operand(new[0].args[1])[0] == "param" and fp.operand(new[0].args[1])[1] == "salt" and \
            fp.operand(new[0].args[0])[0] == "param"
        ctx.require(ok, "R-SIBLING", "agree:%s-salted" % who, "%s serialises SaltedData::new(<cids>, salt)" % who, "%s no longer signs/verifies SaltedData::new(cids, salt).serialize()" % who)
    sp_ = Prov(sc_)
    so = sc_.calls_to("sort_unstable") or sc_.calls_to("sort")
    new = sc_.calls_to("SaltedData::new")
    ctx.require(len(so) == 1 and new and sc_.dominates(so[0].bb, new[0].bb) and lib.mentions_param(sp_.operand(so[0].args[0]), "cids"), "R-SIBLING", "agree:signer-sorts",
                "signer sorts the CID list before serialising", "sign_cids no longer sorts the CIDs before signing")
    dn = F.fn("verification::DataVerifier::new")
    dp = Prov(dn)
    so2 = dn.calls_to("sort_unstable") or dn.calls_to("sort")
    ok = len(so2) == 1 and lib.mentions_field(dp.operand(so2[0].args[0]), "cids") and any(s[0] == "call" and s[1].endswith("values_mut") for s in walk(dp.operand(so2[0].args[0])))
    col = dn.calls_to("verification::collect_peers_cids_from_trace")
    ok = ok and col and lib.guarded_by_ok(dn, col[0], so2[0].bb)
    ctx.require(ok, "R-SIBLING", "agree:verifier-sorts", "verifier sorts every peer's CID list after collecting", "DataVerifier::new no longer sorts each peer's CIDs")
    # the signed list and the verified list undergo the SAME reshaping: exactly one sort each, and no other in-place
    # operation (dedup, truncate, retain, reverse, ...) on either side — the verifier counts CIDs as a multiset, so a
    # signer that e.g. de-duplicates signs a different byte string whenever a peer owns one CID twice
    def list_ops(fn, prov, is_list):
        ops = []
        for c_ in fn.calls:
            if c_.atys and c_.atys[0].startswith("&mut") and ("[" in c_.atys[0] or "Vec<" in c_.atys[0]) and not lib.is_transparent(c_.path) \
                    and not c_.path.endswith("Iterator>::next") and is_list(prov.operand(c_.args[0])):
                ops.append(c_.path.split("::")[-1])
        return sorted(ops)
    s_ops = list_ops(sc_, sp_, lambda e: lib.mentions_param(e, "cids"))
    v_ops = list_ops(dn, dp, lambda e: any(x[0] == "call" and x[1].endswith("values_mut") for x in walk(e)))
    ctx.require(s_ops == ["sort_unstable"] and v_ops == ["sort_unstable"], "R-SIBLING", "agree:list-ops",
                "signer and verifier reshape the CID list identically: one sort_unstable each, nothing else",
                "signer reshapes the CID list with %s, verifier with %s: the signed bytes and the verified bytes differ for some CID multisets" % (s_ops, v_ops),
                sample={"signer_ops": s_ops, "verifier_ops": v_ops})
    same = (so and so2 and so[0].path.split("::")[-1] == so2[0].path.split("::")[-1])
    ctx.require(same, "R-SIBLING", "agree:same-sort", "both sides use the same sort", "signer and verifier use different sorts")
    gs = F.fn("trackers::PeerCidTracker::gen_signature")
    gp2 = Prov(gs)
    c = gs.calls_to("trackers::sign_cids")
    ok = len(c) == 1 and lib.mentions_field(gp2.operand(c[0].args[0]), "cids") and gp2.operand(c[0].args[1])[0] == "param" and gp2.operand(c[0].args[1])[1] == "salt"
    ctx.require(ok, "R-FLOW", "agree:gen_signature", "gen_signature = sign_cids(self.cids, salt, key)", "gen_signature no longer signs the tracked CIDs with the given salt")
    sd = F.fn("signing_step::sign_produced_cids")
    sdp = Prov(sd)
    g2 = sd.calls_to("PeerCidTracker::gen_signature")
    put = sd.calls_to("SignatureStore::put")
    ok = len(g2) == 1 and len(put) == 1 and sdp.operand(g2[0].args[1])[0] == "param" and sdp.operand(g2[0].args[1])[1] == "salt" and \
        lib.guarded_by_ok(sd, g2[0], put[0].bb) and sdp.operand(put[0].args[1])[0] == "call" and sdp.operand(put[0].args[1])[1].endswith("KeyPair::public")
    ctx.require(ok, "R-FLOW", "sign_produced_cids:shape", "signature of tracked CIDs stored under own public key", "sign_produced_cids changed shape")
