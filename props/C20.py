"""C20 — execution is deterministic (DESIGN §4/C20)."""
from rules import lib, facts
from rules.facts import suffix_match
from rules.lib import Prov, show, walk
from props import census

LEVEL = ("Mechanism level: (1) zero-expected census — no call to a clock, random, environment, process-id or thread "
         "source in code reachable from the entry points (log/tracing expansions excluded), with the matcher exercised on a "
         "positive control list every run; (2) hash-order census — every iteration over a HashMap/HashSet/MultiMap in "
         "reachable hand-written code is enumerated and must be a reasoned row: order-insensitive sink, order visible only "
         "in what the property allows (byte order of encoded maps, the SET of next peers), or a first-error selection, which "
         "makes the error MESSAGE depend on the per-process hash seed when the input has several independent faults — those "
         "are reproduced known findings; (3) JSON objects are BTreeMap-backed so value serialisation is order free. "
         "Determinism inside third-party crates is not decided."
         " Added: no loop of a hash-iterating function carries an order-dependent scalar out of the loop; positive controls analysed by the same driver.")

ND_SOURCES = ("std::time::SystemTime::now", "std::time::Instant::now", "std::env::var", "std::env::vars", "std::env::args", "std::env::var_os", "std::env::current_dir",
              "std::thread::spawn", "std::process::id", "std::thread::current", "rand::", "getrandom::", "fastrand::", "std::collections::hash::map::RandomState::new",
              "std::time::SystemTime::elapsed", "std::time::Instant::elapsed", "chrono::", "std::thread::sleep", "std::fs::", "std::net::")
POSITIVE_CONTROL = ["std::time::SystemTime::now", "std::time::Instant::now", "rand::rngs::thread::thread_rng", "getrandom::getrandom", "std::env::var", "std::thread::spawn"]
NEGATIVE_CONTROL = ["core::time::Duration::from_secs", "std::collections::hash::map::HashMap::new", "alloc::string::String::new"]

HASH_TYPES = ("std::collections::hash::map::HashMap<", "std::collections::hash::set::HashSet<", "multimap::MultiMap<", "bimap::")
ITERATOR_TYPES = ("::Iter<", "::IterMut<", "::IntoIter<", "::Values<", "::ValuesMut<", "::Keys<", "::IntoValues<", "::IntoKeys<", "::Drain<", "::IterAll<")
ITER_METHODS = ("::iter", "::iter_mut", "::keys", "::values", "::values_mut", "::into_keys", "::into_values", "::drain", "IntoIterator>::into_iter", "::retain", "::iter_all")

INSENSITIVE = "order-insensitive"
ALLOWED = "order-visible-but-allowed"
FIRST_ERROR = "first-error"
LOGONLY = "diagnostic-only"

# (function path suffix, callee suffix) -> (class, reason)
ROWS = {
    ("ValuesSparseMatrix::cleanup_obsolete_values", "iter_mut"): (INSENSITIVE, "each cell vector is trimmed independently of the others"),
    ("values_sparse_matrix::ValuesSparseMatrix<T> as core::fmt::Display>::fmt", "iter"): (LOGONLY, "Display of the scalar matrix is used by log_instruction!/Display of the execution context only (log text)"),
    ("scalar_variables::Scalars<'i> as core::fmt::Display>::fmt", "iter"): (LOGONLY, "Display of Scalars: log text only"),
    ("StreamMaps::compactify", "iter_mut"): (FIRST_ERROR, "unreachable-error"),
    ("stream_maps_variables::StreamMaps as core::fmt::Display>::fmt", "iter"): (LOGONLY, "Display of StreamMaps: log text only"),
    ("Streams::compactify", "iter_mut"): (FIRST_ERROR, "unreachable-error"),
    ("streams_variables::Streams as core::fmt::Display>::fmt", "iter"): (LOGONLY, "Display of Streams: log text only"),
    ("CanonStreamMap::as_jvalue", "iter"): (INSENSITIVE, "collected into a JValue object, which is BTreeMap-backed (key-sorted) — checked below and by C25"),
    ("canon_stream_map::CanonStreamMap as core::fmt::Display>::fmt", "iter"): (LOGONLY, "Display of CanonStreamMap: log / debug text only"),
    ("outcome::dedup", "into_iter"): (ALLOWED, "order of next_peer_pks: the property compares the SET of next peers"),
    ("preparation::make_exec_ctx", "values"): (INSENSITIVE, "`.values().any(size > limit)`: a boolean that is true iff SOME call result exceeds the limit; the error built from it carries only the configured limit, not the entry"),
    ("CidStore::iter", "iter"): ("wrapper", "judged at the call sites of CidStore::iter"),
    ("CidStore::verify", "into_iter"): (FIRST_ERROR, "B"),
    ("CidStore::verify_raw_value", "into_iter"): (FIRST_ERROR, "B-raw"),
    ("CidTracker::from_cid_stores", "into_iter"): (INSENSITIVE, "every entry is inserted into another map"),
    ("CidStore<Val> as core::iter::traits::collect::IntoIterator>::into_iter", "into_iter"): (ALLOWED, "consuming iteration used to convert/encode the store: only the byte order of encoded maps can differ, which the property allows"),
    ("verification::is_multisubset", "into_iter"): (INSENSITIVE, "returns a boolean that is false iff SOME entry violates the count relation: independent of the visiting order"),
    ("DataVerifier::merge", "into_iter"): (FIRST_ERROR, "D"),
    ("DataVerifier::merge", "into_values"): (INSENSITIVE, "every (key, signature) is put into the resulting SignatureStore map"),
    ("DataVerifier::new", "values_mut"): (INSENSITIVE, "each peer's CID list is sorted in place, independently"),
    ("DataVerifier::verify", "values"): (FIRST_ERROR, "C"),
    ("SignatureStore::iter", "iter"): ("wrapper", "judged at the call sites of SignatureStore::iter"),
    ("ValidatorErrorBuilder::check_undefined_iterables", "iter"): (FIRST_ERROR, "G"),
    ("ValidatorErrorBuilder::check_undefined_variables", "iter"): (FIRST_ERROR, "G"),
    ("ValidatorErrorBuilder::check_multiple_next_in_fold", "iter_all"): (FIRST_ERROR, "G"),
}
WRAPPER_CALL_ROWS = {
    ("CidInfo::verify_service_result_store", "CidStore::iter"): (FIRST_ERROR, "A-service"),
    ("CidInfo::verify_canon_result_store", "CidStore::iter"): (FIRST_ERROR, "A-canon"),
    ("DataVerifier::new", "SignatureStore::iter"): (FIRST_ERROR, "E"),
    ("DataVerifier::new", "SignatureStore::iter#map"): (INSENSITIVE, "collected into the grouped_cids HashMap"),
}
FINDING_TEXT = {
    "A-service": "CidInfo::verify_service_result_store reports the first dangling reference in HashMap order: 8 service results with distinct missing tetraplets give different ret-8 messages in different processes (triage/harness c20)",
    "A-canon": "CidInfo::verify_canon_result_store (three loops over canon_result_store / canon_element_store) reports the first dangling reference in HashMap order (triage/harness nd-a-result, nd-a-values, nd-a-element)",
    "B": "CidStore::verify reports the first value/CID mismatch in HashMap order (triage/harness nd-b-generic)",
    "B-raw": "CidStore::verify_raw_value reports the first value/CID mismatch in HashMap order (triage/harness nd-b-raw)",
    "C": "DataVerifier::verify reports the first peer with a signature mismatch in HashMap order (triage/harness nd-c)",
    "D": "DataVerifier::merge reports the first peer with inconsistent CID multisets in HashMap order (triage/harness nd-d)",
    "E": "DataVerifier::new validates keys in HashMap order and reports the first non-whitelisted key (triage/harness nd-e)",
    "G": "the parser's validator pushes undefined-variable / undefined-iterable errors in MultiMap order; labels sharing one span or spanning several lines are rendered in that order (triage/harness nd-g samespan, nd-g multiline)",
}


def nd_match(path):
    return any(path.startswith(x) or ("::" + x) in path for x in ND_SOURCES)


def nd_calls(F, reach):
    """(number of call sites scanned, [(fn, call)] that are nondeterminism sources outside logging expansions)."""
    n, out = 0, []
    for fid in sorted(reach):
        fn = F.fns[fid]
        for c in fn.calls:
            n += 1
            if nd_match(c.path) and not lib.is_logging_expansion(c.ex) and not census.site_generated(c.ex):
                out.append((fn, c))
    return n, out


def is_hash_iteration(c):
    """The call starts an iteration over a hash-ordered collection (the iterator's own into_iter is not counted twice)."""
    if not c.path.endswith(ITER_METHODS):
        return False
    recv = c.atys[0] if c.atys else ""
    if any(t in recv.split("<")[0] + "<" for t in ITERATOR_TYPES):
        return False
    return any(h in recv for h in HASH_TYPES)


def _sccs(fn):
    import sys
    sys.setrecursionlimit(100000)
    idx, low, st, on, out, cnt = {}, {}, [], set(), [], [0]

    def sc(v):
        idx[v] = low[v] = cnt[0]
        cnt[0] += 1
        st.append(v)
        on.add(v)
        for w in fn.succ[v]:
            if w not in idx:
                sc(w)
                low[v] = min(low[v], low[w])
            elif w in on:
                low[v] = min(low[v], idx[w])
        if low[v] == idx[v]:
            comp = []
            while True:
                w = st.pop()
                on.discard(w)
                comp.append(w)
                if w == v:
                    break
            if len(comp) > 1 or v in fn.succ[v]:
                out.append(set(comp))
    for v in range(len(fn.blocks)):
        if v not in idx and not fn.blocks[v]["cleanup"]:
            sc(v)
    return out


def _locals_used(fn, bb):
    from rules.facts import op_place, rv_operands
    ls = set()
    b = fn.blocks[bb]
    for s in b["stmts"]:
        if "lhs" not in s:
            continue
        for o in rv_operands(s["rv"]):
            p = op_place(o)
            if p:
                ls.add(p["l"])
        if s["rv"]["k"] in ("ref", "discr", "rawptr"):
            ls.add(s["rv"]["place"]["l"])
    t = b["term"]
    if t["k"] == "call":
        for a in t["args"]:
            p = op_place(a)
            if p:
                ls.add(p["l"])
    if t["k"] == "switch":
        p = op_place(t["discr"])
        if p:
            ls.add(p["l"])
    return ls


def loop_carried_values(fn):
    """User variables assigned a data-dependent (non-constant, non-accumulating) value inside a loop and read after it:
    `last = Some(x)` — which element wins depends on the visiting order.  Collection updates (push / insert), constant
    flags (`found = true`) and commutative accumulations (`n += ..`) are not reported."""
    p = Prov(fn)
    out = []
    reach = fn.reachable()
    for loop in _sccs(fn):
        used_out = set()
        for b in reach:
            if b not in loop:
                used_out |= _locals_used(fn, b)
        for bb in loop:
            for s in fn.blocks[bb]["stmts"]:
                if "lhs" not in s:
                    continue
                L = s["lhs"]["l"]
                if L not in used_out or L not in fn.names:
                    continue
                e = p._rv(s["rv"], 0, frozenset())
                if e[0] == "const" or not [x for x in walk(e) if x[0] in ("param", "upvar", "call", "field", "unknown")]:
                    continue
                if e[0] == "bin" and e[1] in ("Add", "AddWithOverflow", "BitOr", "BitAnd", "Mul", "MulWithOverflow", "BitXor"):
                    continue
                out.append((fn.names[L], show(e)[:100]))
    return out


LOOP_CARRIED_AUDITED = {
    ("DataVerifier::merge", "left_val"): "operands of a debug_assert_eq! inside the loop (compiled to a constant-false branch without debug assertions)",
    ("DataVerifier::merge", "right_val"): "operands of a debug_assert_eq! inside the loop (compiled to a constant-false branch without debug assertions)",
}


def check(ctx):
    F = ctx.facts("prod")
    from props import controls
    controls.require(ctx, "nd-source", "hash-iter", "loop-carried")
    ctx.clause("R-NOSRC no reachable call to a clock / random / env / thread / process-id source (positive control on the matcher)")
    ctx.clause("R-REACH hash-order census: every HashMap/HashSet/MultiMap iteration in reachable hand-written code is a reasoned row")
    ctx.clause("R-TYPE JValue::Object is a BTreeMap")

    ctx.require(all(nd_match(x) for x in POSITIVE_CONTROL) and not any(nd_match(x) for x in NEGATIVE_CONTROL), "R-NOSRC", "matcher:control",
                "the nondeterminism matcher fires on %d positive controls and stays silent on %d negative ones" % (len(POSITIVE_CONTROL), len(NEGATIVE_CONTROL)), "the nondeterminism-source matcher is broken")
    reach, parent, roots, extra = census.reach_set(F)
    ctx.analysed.setdefault("prod", {})["reachable_functions"] = len(reach)
    n_calls, nd = nd_calls(F, reach)
    for fn, c in nd:
        ctx.violation("R-NOSRC", "source:%s|%s" % (fn.path, c.path), "nondeterminism source `%s` called in %s (reachable from an entry point) at %s" % (c.path, fn.path, c.loc()),
                      {"chain": [F.fns[x].path for x in F.chain(parent, fn.id)][-6:]})
    ctx.examined(n_calls)
    ctx.ok("R-NOSRC", "sources:none", "%d reachable call sites scanned, none is a nondeterminism source" % n_calls, sample={"call_sites_scanned": n_calls})
    ctx.floor("R-NOSRC", "reachable call sites scanned", n_calls, 10000)

    wrappers = {}
    for suffix in ("CidStore::iter", "SignatureStore::iter"):
        fs = F.find("cid_store::" + suffix) + F.find("stores::" + suffix)
        for f in fs:
            wrappers[f.id] = suffix
    n_sites = 0
    seen_rows = set()
    for fid in sorted(reach):
        fn = F.fns[fid]
        if census.is_generated_fn(fn):
            continue
        for c in fn.calls:
            if census.site_generated(c.ex):
                continue
            key = None
            if c.cid in wrappers:
                # distinguish the two uses inside DataVerifier::new by what consumes the iterator
                tag = wrappers[c.cid]
                owner = fn.path.split("::{closure")[0]
                cand = [k for k in WRAPPER_CALL_ROWS if owner.endswith(k[0]) and k[1].split("#")[0] == tag]
                n_sites += 1
                if not cand:
                    ctx.violation("R-REACH", "hash-iter:%s|%s" % (owner, tag), "new iteration over a hash-ordered store through %s in %s at %s (not classified)" % (tag, fn.path, c.loc()))
                    continue
                for k in cand:
                    seen_rows.add(k)
                continue
            if not is_hash_iteration(c):
                continue
            recv = c.atys[0] if c.atys else ""
            n_sites += 1
            owner = fn.path.split("::{closure")[0]
            short = c.path.split("::")[-1]
            # `for x in &map` (IntoIterator::into_iter) and `map.iter()` are the same iteration
            same = {"iter": ("iter", "into_iter"), "into_iter": ("iter", "into_iter")}.get(short, (short,))
            rk = [k for k in ROWS if owner.endswith(k[0]) and k[1] in same]
            if not rk:
                ctx.violation("R-REACH", "hash-iter:%s|%s" % (owner, short), "new iteration over a hash-ordered collection (%s on %s) in %s at %s: its sink has not been classified as order-insensitive"
                              % (short, recv[:60], fn.path, c.loc()), {"loc": c.loc()})
                continue
            seen_rows.add(rk[0])
    ctx.floor("R-REACH", "hash-order iteration sites", n_sites, 20)
    # the classification of a row speaks about its sink; one sink shape is decidable mechanically and is re-checked on every
    # run for every function that iterates in hash order: no loop may carry a "which element was seen last/first" value out
    ctx.clause("R-FLOW no loop in a hash-iterating function carries an order-dependent scalar (last/first element wins) out of the loop")
    n_loops_fns = 0
    for fid in sorted(reach):
        fn = F.fns[fid]
        if census.is_generated_fn(fn) or not any(is_hash_iteration(c) or c.cid in wrappers for c in fn.calls):
            continue
        n_loops_fns += 1
        owner = fn.path.split("::{closure")[0]
        for name, expr in loop_carried_values(fn):
            aud = [r for (o, n_), r in LOOP_CARRIED_AUDITED.items() if owner.endswith(o) and n_ == name]
            if aud:
                ctx.ok("R-FLOW", "loop-carried:%s|%s" % (owner, name), aud[0])
            else:
                ctx.violation("R-FLOW", "loop-carried:%s|%s" % (owner, name), "%s iterates in hash order and its loop assigns `%s := %s`, a value read after the loop: which element wins depends on the per-process hash seed"
                              % (fn.path, name, expr), {"fn": fn.path})
    ctx.ok("R-FLOW", "loop-carried:scan", "%d hash-iterating functions scanned for order-dependent loop-carried values" % n_loops_fns)
    allrows = dict(ROWS)
    allrows.update(WRAPPER_CALL_ROWS)
    for k in sorted(seen_rows):
        cls, reason = allrows[k]
        key = "hash-iter:%s|%s" % k
        if cls == FIRST_ERROR and reason == "unreachable-error":
            ctx.ok("R-REACH", key, "first-error selection over streams, but Stream::compactify can only fail on a trace position the interpreter itself recorded (append-only result trace): no input reaches the error (triaged)")
        elif cls == FIRST_ERROR:
            ctx.violation("R-REACH", "first-error:" + reason, FINDING_TEXT[reason], {"site": k})
        elif cls == "wrapper":
            ctx.ok("R-REACH", key, reason)
        else:
            ctx.ok("R-REACH", key, "%s: %s" % (cls, reason), sample={"site": list(k), "class": cls})
    jv = F.adt("air_interpreter_value::value::JValue")
    obj = [v for v in jv["variants"] if v["name"] == "Object"]
    ctx.require(bool(obj) and "btree::map::BTreeMap<" in obj[0]["fields"][0]["ty"], "R-TYPE", "object:btreemap", "JValue::Object is BTreeMap-backed", "JValue::Object is no longer a BTreeMap")
