"""C24 — lens selection agrees with plain JSON selection (DESIGN §4/C24)."""
from rules import lib, facts
from rules.lib import Prov, PathProv, show, walk

LEVEL = ("Mechanism level (dispatch and shape of the small total selection functions): select_by_path_from_scalar "
         "dispatches each accessor kind to its helper and threads the selected value; try_jvalue_with_idx / "
         "try_jvalue_with_field_name call slice::get / map::get with exactly their parameter on the Array / Object arm only "
         "and fail otherwise; select_by_jvalue maps String -> field, Number -> index via try_number_to_u32, anything else -> "
         "error; .length is as_array()?.len(); every failure exit is a LambdaError wrapped into a Catchable error. Value "
         "agreement for all JSON x paths is NOT decided."
         " Added: both scalar kinds select through select_by_jvalue; map-key constructors classify numbers alike; try_number_to_u32 = as_u64 + try_from only.")


def check(ctx):
    F = ctx.facts("prod")
    ctx.clause("R-TABLE select_by_path_from_scalar accessor dispatch; select_by_jvalue dispatch")
    ctx.clause("R-FLOW try_jvalue_with_idx / try_jvalue_with_field_name: get(parameter) on the matching arm only")
    ctx.clause("R-TYPE/R-REACH failure exits are catchable LambdaErrors")

    sp = F.fn("lambda_applier::applier::select_by_path_from_scalar")
    spp = Prov(sp)
    rows = {}
    for st in lib.enumerate_paths(sp, spp, max_paths=60000, max_visits=2):
        kinds = [v for k, v in st.variants.items() if v in ("ArrayAccess", "FieldAccessByName", "FieldAccessByScalar", "Error")]
        for kd in set(kinds):
            helpers = tuple(sorted({c.path.split("::")[-1] for c in st.calls if c.path.endswith(("try_jvalue_with_idx", "try_jvalue_with_field_name", "select_by_scalar", "Scalars::get_value"))}))
            rows.setdefault(kd, set()).add(helpers)
    def has(kd, name):
        return any(name in h for h in rows.get(kd, set()))
    ok = has("ArrayAccess", "try_jvalue_with_idx") and has("FieldAccessByName", "try_jvalue_with_field_name") and has("FieldAccessByScalar", "select_by_scalar") and has("FieldAccessByScalar", "get_value")
    ctx.require(ok, "R-TABLE", "scalar:dispatch", "ArrayAccess -> try_jvalue_with_idx, FieldAccessByName -> try_jvalue_with_field_name, FieldAccessByScalar -> get_value + select_by_scalar",
                "select_by_path_from_scalar dispatch is %s" % {k: sorted(v) for k, v in rows.items()}, sample={"table": {k: sorted(map(list, v)) for k, v in rows.items()}})
    for helper, fld in (("try_jvalue_with_idx", "idx"), ("try_jvalue_with_field_name", "field_name")):
        for c in sp.calls_to("lambda_applier::utils::" + helper):
            a0, a1 = spp.operand(c.args[0]), spp.operand(c.args[1])
            ok = lib.mentions_field(a1, fld) and (lib.mentions_param(a0, "value") or any(s[0] == "call" and s[1].endswith(("try_jvalue_with_idx", "try_jvalue_with_field_name", "select_by_scalar")) for s in walk(a0)))
            ctx.require(ok, "R-FLOW", "scalar:args:" + helper, "%s(current value, accessor.%s)" % (helper, fld), "%s is called with (%s, %s)" % (helper, show(a0)[:80], show(a1)[:80]))
    # value threading: the helper results are assigned back to `value`
    vl = [i for i in range(1, sp.argc + 1) if sp.local_name(i) == "value"]
    if vl:
        defs = spp.defs.get(vl[0], [])
        srcs = set()
        for kind, bi, si, x in defs:
            e = spp._call(x, 0, frozenset()) if kind == "call" else spp._rv(x, 0, frozenset())
            for s in walk(e):
                if s[0] == "call":
                    srcs.add(s[1].split("::")[-1])
        ctx.require({"try_jvalue_with_idx", "try_jvalue_with_field_name", "select_by_scalar"} <= srcs, "R-FLOW", "scalar:threads-value", "each step's result becomes the value for the next accessor", "select_by_path_from_scalar no longer threads the selected value (%s)" % sorted(srcs))
    r0 = spp.local(0)
    ctx.require(any(s[0] == "agg" and s[2] == "Ok" and lib.mentions_param(s, "value") for s in walk(r0)), "R-FLOW", "scalar:returns-value", "returns the finally selected value", "select_by_path_from_scalar returns `%s`" % show(r0)[:160])

    for name, arm, getter, param in (("try_jvalue_with_idx", "Array", "::get", "idx"), ("try_jvalue_with_field_name", "Object", "::get", "field_name")):
        f = F.fn("lambda_applier::utils::" + name)
        p = Prov(f)
        gets = [c for c in f.calls if c.path.endswith(getter) and ("slice" in c.path or "BTreeMap" in c.path or "Map" in c.path or "[T]" in c.path)]
        ok = len(gets) == 1
        if ok:
            g = gets[0]
            vg = [v for e_, v in lib.variant_guards(f, g.bb, p)]
            key = p.operand(g.args[1])
            inner = key[2] if key[0] == "cast" else key
            ok = arm in vg and inner[0] == "param" and inner[1] == param and lib.mentions_param(p.operand(g.args[0]), "jvalue")
            if key[0] == "cast":
                ok = ok and key[1] == "usize"
        ctx.require(ok, "R-FLOW", "helper:" + name, "%s: %s arm only, get(%s%s)" % (name, arm, param, " as usize" if name.endswith("idx") else ""),
                    "%s no longer selects with exactly its parameter on the %s arm" % (name, arm), sample={"fn": name})
        rows = {}
        for st in lib.enumerate_paths(f, p, max_paths=20000):
            var = [v for k, v in st.variants.items() if k[0] == 1 or True]
            vk = [v for k, v in st.variants.items() if v in ("Null", "Bool", "Number", "String", "Array", "Object")]
            e = PathProv(f, st.blocks).local(0)
            errs = [s[2] for s in walk(e) if s[0] == "agg" and s[1].endswith("LambdaError")]
            res = "get" if any(c.path.endswith(getter) for c in st.calls) else ("Err:" + errs[0] if errs else show(e)[:40])
            for v in vk:
                rows.setdefault(v, set()).add(res)
        others_ok = all(("get" not in v) for k, v in rows.items() if k != arm)
        ctx.require(rows.get(arm) == {"get"} and others_ok, "R-TABLE", "helper-table:" + name, "only %s values are navigated; every other kind is an error" % arm, "%s table is %s" % (name, {k: sorted(v) for k, v in rows.items()}))
    sj = F.fn("lambda_applier::utils::select_by_jvalue")
    sjp = Prov(sj)
    rows = {}
    for st in lib.enumerate_paths(sj, sjp, max_paths=20000):
        vk = [v for k, v in st.variants.items() if v in ("Null", "Bool", "Number", "String", "Array", "Object") and k[0] == 2]
        helpers = tuple(sorted({c.path.split("::")[-1] for c in st.calls if c.path.endswith(("try_jvalue_with_idx", "try_jvalue_with_field_name", "try_number_to_u32"))}))
        for v in vk:
            rows.setdefault(v, set()).add(helpers)
    ok = rows.get("String") == {("try_jvalue_with_field_name",)} and ("try_jvalue_with_idx", "try_number_to_u32") in rows.get("Number", set()) and \
        all(v == {()} for k, v in rows.items() if k not in ("String", "Number"))
    ctx.require(ok, "R-TABLE", "select_by_jvalue", "String -> field name; Number -> index via try_number_to_u32; other kinds -> error", "select_by_jvalue table is %s" % {k: sorted(v) for k, v in rows.items()},
                sample={"table": {k: sorted(map(list, v)) for k, v in rows.items()}})
    # a scalar used as accessor selects the same way whatever kind of scalar it is: both arms of select_by_scalar (a plain
    # value, a fold iterator's current element) go through select_by_jvalue (string -> field, number -> index)
    ctx.clause("R-SIBLING select_by_scalar: plain scalars and fold iterators both select through select_by_jvalue")
    ss = F.fn("lambda_applier::utils::select_by_scalar")
    rows = {}
    for st in lib.enumerate_paths(ss, max_paths=20000):
        var = [v for k, v in st.variants.items() if v in ("Value", "IterableValue")]
        hs = tuple(sorted({c.path.split("::")[-1] for c in st.calls if c.path.endswith(("select_by_jvalue", "try_jvalue_with_idx", "try_jvalue_with_field_name", "try_scalar_ref_as_idx"))}))
        if var:
            rows.setdefault(var[0], set()).add(hs)
    ctx.require(rows == {"Value": {("select_by_jvalue",)}, "IterableValue": {("select_by_jvalue",)}}, "R-SIBLING", "select_by_scalar:arms", "Value and IterableValue both -> select_by_jvalue",
                "select_by_scalar dispatch is %s: a fold iterator used as accessor no longer selects like a plain scalar (string keys / numeric indices)" % {k: sorted(v) for k, v in rows.items()},
                sample={"table": {k: sorted(map(list, v)) for k, v in rows.items()}})
    # canon-map keys: the three ways a key is made (from an owned value, from a borrowed value, from a literal index) must
    # classify a number alike, or a key stored one way is never found when looked up the other way.  A non-negative integer
    # satisfies both is_i64 and is_u64, so the ORDER of the two guards decides the representation.
    ctx.clause("R-SIBLING StreamMapKey: from_value and from_value_ref test is_i64 before is_u64 alike; literal indices (From<u32>) are I64")
    orders = {}
    for nm in ("from_value", "from_value_ref"):
        kf = F.fn("stream_map_key::StreamMapKey::" + nm)
        first = {}
        for st in lib.enumerate_paths(kf, max_paths=20000):
            guards = [c.path.split("::")[-1] for c in st.calls if c.path.endswith(("Number::is_i64", "Number::is_u64"))]
            built = [s_["rv"]["variant"] for bb in st.blocks for s_ in kf.blocks[bb]["stmts"] if "lhs" in s_ and s_["rv"]["k"] == "agg" and s_["rv"].get("kind") == "adt" and s_["rv"]["adt"].endswith("StreamMapKey")]
            if guards and built:
                first.setdefault(built[-1], set()).add(tuple(guards))
        orders[nm] = {k: sorted(v) for k, v in first.items()}
    want_o = {"I64": [("is_i64",)], "U64": [("is_i64", "is_u64")]}
    ctx.require(orders.get("from_value") == want_o and orders.get("from_value_ref") == want_o, "R-SIBLING", "map-key:number-classification",
                "both constructors: is_i64 first -> I64, else is_u64 -> U64", "StreamMapKey number classification differs or changed: %s (expected %s for both): a numeric key read from a scalar is represented differently from the stored key and never matches" % (orders, want_o),
                sample={"orders": {k: {kk: [list(x) for x in vv] for kk, vv in v.items()} for k, v in orders.items()}})
    fu = [f_ for f_ in F.impl_fns("convert::From", "StreamMapKey", "from") if "<u32>" in (F.impl_of(f_).get("trait") or "")]
    oku = len(fu) == 1
    if oku:
        e_ = Prov(fu[0]).local(0)
        oku = e_[0] == "agg" and e_[2] == "I64"
    ctx.require(oku, "R-SIBLING", "map-key:literal-index", "a literal index becomes I64 (like a stored non-negative key)", "From<u32> for StreamMapKey no longer builds I64")
    # a numeric accessor is an index only if it IS a non-negative integer that fits u32: as_u64 then u32::try_from,
    # nothing else (no float route, no cast that truncates or saturates)
    ctx.clause("R-FLOW try_number_to_u32 = as_u64().and_then(u32::try_from).ok_or(IndexAccessNotU32), no float conversion or numeric cast")
    tn = F.fn("lambda_applier::utils::try_number_to_u32")
    fam_calls = [c for f_, p_ in lib.family(F, tn) for c in f_.calls]
    names = [c.path for c in fam_calls]
    casts = [(s_["rv"]["from"], s_["rv"]["to"]) for f_, p_ in lib.family(F, tn) for bi, si, s_ in f_.stmts() if s_["rv"]["k"] == "cast" and s_["rv"]["kind"] in ("IntToInt", "FloatToInt", "IntToFloat", "FloatToFloat")]
    okn = any(n.endswith("Number::as_u64") for n in names) and any("TryFrom" in n and n.endswith("try_from") for n in names) and \
        not any(n.endswith(("Number::as_f64", "Number::as_i64")) for n in names) and not casts
    ctx.require(okn, "R-FLOW", "index:number-to-u32", "as_u64 + u32::try_from only", "try_number_to_u32 now uses %s and casts %s: a fractional or negative number can be accepted as an index"
                % (sorted({n.split("::")[-1] for n in names if "Number::as_" in n}), casts))
    # `.length` of a canon map counts what iteration over the map yields — its key-value pairs (the ordered `values`
    # list), like `.length` of a canon stream counts its elements — not the number of distinct keys of the lookup index
    ctx.clause("R-SIBLING CanonStreamMap::len and ::iter both range over the ordered pair list (`values`), not over the key index")
    ln_, it_ = F.fn("canon_stream_map::CanonStreamMap::len"), F.fn("canon_stream_map::CanonStreamMap::iter")
    el, ei = Prov(ln_).local(0), Prov(it_).local(0)
    okl = lib.mentions_field(el, "values") and not lib.mentions_field(el, "map") and lib.mentions_field(ei, "values") and not lib.mentions_field(ei, "map")
    ctx.require(okl, "R-SIBLING", "canon-map:length-counts-pairs", "len = values.len(), iter = values.iter()",
                "CanonStreamMap::len is `%s` while iteration is `%s`: `#%%map.length` no longer counts the pairs that selection and iteration see" % (show(el)[:80], show(ei)[:80]))
    fl = F.fn("lambda_applier::applier::select_by_functor_from_scalar")
    flp = Prov(fl)
    names = [c.path for c in fl.calls]
    ok = any(n.endswith("JValue::as_array") for n in names) and any(n.endswith("::len") for n in names)
    e0 = flp.local(0)
    ok = ok and any(s[0] == "agg" and s[2] == "LengthFunctorAppliedToNotArray" for s in walk(e0) ) or (ok and any("LengthFunctorAppliedToNotArray" in show(Prov(c).local(0)) for c in F.closures_of(fl)))
    ctx.require(ok, "R-FLOW", "length-functor", ".length = as_array()?.len(), catchable error on non-arrays", "select_by_functor_from_scalar changed shape")
    # catchability: lambda_to_execution_error! wraps into Catchable; no Uncatchable constructed in lambda_applier
    n_unc = 0
    n_fn = 0
    for f in F.fns.values():
        if f.crate == "air" and "::lambda_applier::" in f.path:
            n_fn += 1
            for bi, si, s in f.stmts():
                rv = s["rv"]
                if rv["k"] == "agg" and rv.get("kind") == "adt" and rv["adt"].endswith("ExecutionError") and rv["variant"] == "Uncatchable":
                    n_unc += 1
    ctx.require(n_unc == 0 and n_fn >= 10, "R-TYPE", "catchable-only", "no Uncatchable error is constructed inside lambda_applier (%d fns)" % n_fn, "lambda_applier now constructs an Uncatchable error (%d sites)" % n_unc)
    wraps = 0
    for c in sp.calls:
        if c.path.endswith("Result::map_err") and any("lambda_to_execution_error" in e for e in c.ex):
            wraps += 1
    ctx.require(wraps >= 3, "R-TYPE", "catchable-wrap", "each helper result in select_by_path_from_scalar goes through lambda_to_execution_error! (%d)" % wraps, "lens failures are no longer wrapped by lambda_to_execution_error!")
    lm = [f for f in F.fns.values() if f.crate == "air" and "select_by_path_from_scalar::{closure" in f.path]
    ok = False
    for f in lm:
        e = Prov(f).local(0)
        if any(s[0] == "agg" and s[2] == "Catchable" for s in walk(e)) and any(s[0] == "agg" and s[2] == "LambdaApplierError" for s in walk(e)):
            ok = True
    ctx.require(ok, "R-TYPE", "catchable-shape", "lambda_to_execution_error! = ExecutionError::Catchable(Rc::new(CatchableError::LambdaApplierError(e)))", "lambda_to_execution_error! no longer wraps into a Catchable error")
