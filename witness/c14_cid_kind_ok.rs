//! Compiling twin of `c14_cid_kind_bad.rs`: the same lookup in the store of the id's own kind type-checks.
use air_interpreter_cid::CID;
use air_interpreter_data::{CanonResultCidAggregate, CidInfo};

pub fn lookup(info: &CidInfo, cid: &CID<CanonResultCidAggregate>) -> bool {
    info.canon_result_store.get(cid).is_some()
}
