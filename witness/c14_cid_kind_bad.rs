//! W-CF witness (DESIGN §4/C14.8): a content id is phantom-typed by the kind of thing it names, so the
//! "state kind change" tamper — looking a canon-result id up among the service results — is not expressible
//! inside the interpreter.  This file MUST fail to type-check with E0308; its twin `c14_cid_kind_ok.rs`
//! differs only in the store that is consulted and MUST type-check.
use air_interpreter_cid::CID;
use air_interpreter_data::{CanonResultCidAggregate, CidInfo};

pub fn lookup(info: &CidInfo, cid: &CID<CanonResultCidAggregate>) -> bool {
    info.service_result_store.get(cid).is_some()
}
