#!/usr/bin/env python3
"""Checker self-test (DESIGN §8): every patch under selftest/mutants must make the named checks report a
VIOLATION; every patch under selftest/benign must leave them silent.  Applies each patch to /repo,
runs the checks, reverts.  usage: selftest.py [filter-substring]"""
import glob, os, subprocess, sys
HERE = os.path.dirname(os.path.dirname(os.path.abspath(__file__)))
flt = sys.argv[1] if len(sys.argv) > 1 else ""
bad = 0
for kind in ("mutants", "benign"):
    for p in sorted(glob.glob(os.path.join(HERE, "selftest", kind, "*.diff"))):
        base = os.path.basename(p)
        if flt not in base:
            continue
        props = base.split("__")[0].split("+")
        r = subprocess.run(["git", "-C", "/repo", "apply", p])
        if r.returncode != 0:
            print("CANNOT APPLY", base); bad += 1; continue
        try:
            for c in props:
                out = subprocess.run([os.path.join(HERE, "check"), c], stdout=subprocess.PIPE, stderr=subprocess.STDOUT, text=True)
                fired = "VIOLATION property=%s" % c in out.stdout
                cannot = out.returncode == 2
                ok = (fired and kind == "mutants") or (not fired and not cannot and kind == "benign")
                first = [l for l in out.stdout.splitlines() if l.startswith("  %s:" % c)]
                print("%-7s %-60s %-4s %s %s" % (kind, base[:60], c, "ok  " if ok else "FAIL", (first[0][:150] if first else ("(does not compile)" if cannot else ""))))
                if not ok:
                    bad += 1
        finally:
            subprocess.run(["git", "-C", "/repo", "checkout", "--", "."])
print("selftest failures:", bad)
sys.exit(1 if bad else 0)
