#!/usr/bin/env python3
"""Make a self-test mutation patch: mp.py <Cxx[,Cyy]> <name> <repo-file> <old> <new> [occurrence] [--benign]
Applies an exact-string replacement to /repo, stores `git diff` as selftest/<Cxx>/<name>.diff, reverts."""
import os, subprocess, sys
args = [a for a in sys.argv[1:] if a != "--benign"]
benign = "--benign" in sys.argv
props, name, path, old, new = args[:5]
occ = int(args[5]) if len(args) > 5 else 1
full = os.path.join("/repo", path)
s = open(full).read()
idx = -1
for _ in range(occ):
    idx = s.find(old, idx + 1)
    if idx < 0:
        sys.exit("pattern not found: %r in %s" % (old, path))
s2 = s[:idx] + new + s[idx + len(old):]
open(full, "w").write(s2)
d = subprocess.run(["git", "-C", "/repo", "diff"], stdout=subprocess.PIPE, text=True).stdout
subprocess.run(["git", "-C", "/repo", "checkout", "--", "."])
sub = "benign" if benign else "mutants"
out = os.path.join(os.path.dirname(os.path.dirname(os.path.abspath(__file__))), "selftest", sub)
os.makedirs(out, exist_ok=True)
fn = os.path.join(out, "%s__%s.diff" % (props.replace(",", "+"), name))
open(fn, "w").write(d)
print("wrote", fn, len(d.splitlines()), "lines")
