#!/usr/bin/env python3
"""Debug aid: list non-noise calls of a function with provenance of arguments."""
import sys, os
sys.path.insert(0, os.path.dirname(os.path.dirname(os.path.abspath(__file__))))
from rules import facts, lib
F = facts.load(os.environ.get("CFG", "prod"))
for a in sys.argv[1:]:
    for f in F.find(a):
        p = lib.Prov(f)
        print("==", f.path, "argc", f.argc, [f.local_name(i) for i in range(1, f.argc + 1)])
        for c in f.calls:
            if any(x in c.path for x in ("tracing", "core::fmt", "FieldSet", "log::")) or any("tracing" in e or "log" in e for e in c.ex):
                continue
            print("  bb%d %s(%s) %s %s" % (c.bb, c.path, ", ".join(lib.show(p.operand(x))[:90] for x in c.args), c.ex or "", lib.result_edges(f, c) or ""))
        print("  ret:", lib.show(p.local(0))[:1200])
