#!/usr/bin/env python3
"""Regenerates /verif/MANIFEST.json from the per-property modules (LEVEL, TECHNIQUE) and tables below."""
import importlib, json, os, sys
HERE = os.path.dirname(os.path.dirname(os.path.abspath(__file__)))
sys.path.insert(0, HERE)

NOT_APPLICABLE = {}
TECH = {
    "C01": "MIR reachability census of panic/alloc/recursion/unsafe sites with guard recognition and an exact-count allow-list; positive-control fixture analysed by the same driver",
    "C02": "MIR def-use provenance of outcome arguments + path-sensitive dispatch table + closed constructor-site set + const/ADT facts",
    "C03": "MIR pairing rule (tracked CID -> record_call_cid on all non-error paths) + sibling agreement of signer/verifier",
    "C05": "MIR dominance/guard analysis of the single request site + extracted decision tables (handle_prev_state, merge)",
    "C06": "MIR field-writer census + def-use provenance of the id counter and lookup key; previous/current side-discipline lint over MIR provenance",
    "C07": "decision-table extraction from MIR + idempotence law; previous/current side-discipline lint over MIR provenance",
    "C08": "decision-table extraction from MIR + symmetry law; previous/current side-discipline lint over MIR provenance",
    "C09": "decision-table extraction from MIR + monotonicity law; must-call (lock-step) and union-shape rules; previous/current side-discipline lint over MIR provenance",
    "C10": "MIR pairing/must-call rules on the par/fold state machines and stub-generation discipline",
    "C11": "MIR guard analysis + call-graph non-reachability + canon merge table",
    "C12": "MIR def-use order pins (chain order, start indices) + dispatch tables; previous/current side-discipline lint over MIR provenance",
    "C13": "path-sensitive pairing (append <-> state) + comparison normal form of the size limit + must-write cursor rule; previous/current side-discipline lint over MIR provenance",
    "C14": "MIR must-pass chain with propagated errors, dominance, type-derived check_reference obligations, Cargo feature facts, compile-fail witness (E0308) with compiling twin for the phantom-typed CID",
    "C15": "comparison normal form + path ordering (swap then check) on DataVerifier::merge",
    "C16": "control-skeleton tables of the instruction executors + scoping pairings",
    "C17": "sibling agreement of apply_lambda_with_tetraplets impls + argument-position flow",
    "C18": "xor dispatch table + per-variant sibling rule on Instruction::execute + error-setting tables",
    "C19": "MIR field-writer census + edge guards (== / != current peer) + def-use of forwarded peers",
    "C20": "zero-expected census of nondeterminism sources + hash-order iteration census with sink classification",
    "C21": "comparison normal form + dominance in parse_data + constant facts",
    "C22": "comparison normal form + provenance pairing of limits/flags/constructors + non-interference read census",
    "C23": "reachability census for the parser + type-derived validator coverage obligations",
    "C24": "dispatch tables and flow shapes of the lens selection helpers",
    "C25": "type/feature facts (BTreeMap, no preserve_order) + comparison shape of CID verification",
    "C26": "variant-correspondence tables of JValue conversions and serde impls",
    "C27": "writer/reader sibling agreement of Representation impls + codec guard + rkyv CheckBytes type closure",
    "C28": "type-derived child-slot coverage/order/indent rule on the beautifier walker",
}
props = [json.loads(l) for l in open(os.path.join(HERE, "properties.jsonl"))]
checks, na = [], []
for p in props:
    pid = p["id"]
    if pid in NOT_APPLICABLE:
        na.append({"property_id": pid, "reason": NOT_APPLICABLE[pid]})
        continue
    if not os.path.exists(os.path.join(HERE, "props", pid + ".py")):
        na.append({"property_id": pid, "reason": "no check registered: the rule set for this property is not built (see DESIGN.md section 4/%s for the planned clauses)" % pid})
        continue
    mod = importlib.import_module("props." + pid)
    checks.append({
        "property_id": pid,
        "quick_cmd": "./check %s --tier quick" % pid,
        "thorough_cmd": "./check %s --tier thorough" % pid,
        "evidence_file": "/verif/evidence/%s.json" % pid,
        "replay_cmd_template": "./check %s --replay {path}" % pid,
        "engine": "airlint+rules",
        "level_claimed": {"category": "other", "text": mod.LEVEL, "design_ref": "DESIGN.md section 4/%s" % pid},
        "level_note": "Trusted base: rustc 1.97 MIR of today's /repo source (host cfg, release-like flags: debug-assertions off, overflow-checks on), "
                      "Instance::try_resolve callee resolution (dyn calls over-approximated), third-party crates not analysed inside, "
                      "the airlint extractor and the Python rule evaluators. Structural clauses are necessary conditions, not the behaviour itself.",
        "technique": "static analysis: " + getattr(mod, "TECHNIQUE", TECH.get(pid, "MIR rules")),
    })
m = {
    "version": 1,
    "setup_cmd": "python3 -c \"import sys; sys.path.insert(0,'/verif'); from rules import facts; facts.ensure_facts('prod'); facts.ensure_fixture_facts()\"",
    "hooks": {
        "guard": "fluencelabs_aquavm_verif",
        "enable": "no source hooks: the analysis is external (rustc_private driver injected as RUSTC_WORKSPACE_WRAPPER under the pinned cargo with RUSTC=nightly)",
        "baseline_off_cmd": "cd /repo && cargo nextest run --workspace --no-fail-fast --offline",
        "source_commits": [],
        "add_only": True,
    },
    "engines": [
        {"name": "airlint", "path": "/verif/airlint", "serves_properties": [c["property_id"] for c in checks],
         "kind_free_text": "rustc_private fact extractor: dumps the type-checked program (MIR CFG, resolved callees, ADTs, impls, consts, unsafe blocks) as JSON"},
        {"name": "rules", "path": "/verif/rules", "serves_properties": [c["property_id"] for c in checks],
         "kind_free_text": "Python evaluators: dominators, edge guards in comparison normal form, def-use provenance, field-writer census, decision-table extraction by path-sensitive dataflow"},
        {"name": "fixture", "path": "/verif/fixtures/positive", "serves_properties": ["C01", "C04", "C06", "C07", "C08", "C09", "C12", "C13", "C20", "C23"],
         "kind_free_text": "positive-control crate: one deliberate violation per census / zero-expected rule, analysed by airlint on every run; a matcher that stops firing fails the check"},
        {"name": "props", "path": "/verif/props", "serves_properties": [c["property_id"] for c in checks],
         "kind_free_text": "per-property rule tables (instances, floors, reasons) and verdict logic"},
    ],
    "checks": checks,
    "not_applicable": na,
    "notes": "Technique family: static analysis only. `fix:` commits in /repo and known findings are listed in /verif/known_findings.json. "
             "tools/mutrun.py replays the mutation catalogue (/verif/selftest/mutants, /verif/seeded) and the behaviour-preserving edits (/verif/selftest/benign) against the checks in private worktrees.",
}
json.dump(m, open(os.path.join(HERE, "MANIFEST.json"), "w"), indent=1)
print("checks:", [c["property_id"] for c in checks])
print("not_applicable:", [n["property_id"] for n in na])
