#!/usr/bin/env python3
"""Debug aid: pretty-print the extracted facts of a function (MIR-like). Not part of any check."""
import os
import sys

sys.path.insert(0, os.path.dirname(os.path.dirname(os.path.abspath(__file__))))
from rules import facts  # noqa


def pl(fn, p):
    s = fn.local_name(p["l"]) if p["l"] in fn.names else "_%d" % p["l"]
    for e in p["p"]:
        if e == "*":
            s = "(*%s)" % s
        elif isinstance(e, dict) and "f" in e:
            s += "." + e["f"]
        elif isinstance(e, dict) and "dc" in e:
            s += " as " + e["dc"]
        elif isinstance(e, dict) and "ix" in e:
            s += "[_%d]" % e["ix"]
        elif isinstance(e, dict) and "cix" in e:
            s += "[%s%d]" % ("-" if e["fe"] else "", e["cix"])
        else:
            s += str(e)
    return s


def op(fn, o):
    if "copy" in o:
        return pl(fn, o["copy"])
    if "move" in o:
        return "move " + pl(fn, o["move"])
    if "const" in o:
        c = o["const"]
        if "fn" in c:
            return "fn:" + c["fn"]["path"]
        return "const " + c["d"]
    return "?"


def rv(fn, r):
    k = r["k"]
    if k == "use":
        return op(fn, r["op"])
    if k == "ref":
        return ("&mut " if r["mut"] else "&") + pl(fn, r["place"])
    if k == "bin":
        return "%s(%s, %s)" % (r["op"], op(fn, r["a"]), op(fn, r["b"]))
    if k == "un":
        return "%s(%s)" % (r["op"], op(fn, r["a"]))
    if k == "cast":
        return "%s as %s [%s]" % (op(fn, r["op"]), r["to"], r["kind"])
    if k == "discr":
        return "discr(%s) %s" % (pl(fn, r["place"]), r["vars"])
    if k == "agg":
        if r["kind"] == "adt":
            return "%s::%s{%s}" % (r["adt"], r["variant"], ", ".join("%s: %s" % (f, op(fn, o)) for f, o in zip(r["fields"], r["ops"])))
        if r["kind"] == "closure":
            return "closure %s [%s]" % (r["closure"], ", ".join(op(fn, o) for o in r["ops"]))
        return "%s(%s)" % (r["kind"], ", ".join(op(fn, o) for o in r["ops"]))
    return str(r)


def dump(fn):
    print("fn %s  [%s]  argc=%d  %s" % (fn.path, fn.id, fn.argc, fn.o["body_sp"]))
    for i, t in enumerate(fn.locals):
        print("   let _%d: %s%s" % (i, t, ("   // " + fn.names[i]) if i in fn.names else ""))
    for i, b in enumerate(fn.blocks):
        print(" bb%d%s:  // line %d" % (i, " (cleanup)" if b["cleanup"] else "", b["ln"]))
        for s in b["stmts"]:
            if "lhs" in s:
                print("    %s = %s" % (pl(fn, s["lhs"]), rv(fn, s["rv"])))
            else:
                print("    %s" % s)
        t = b["term"]
        k = t["k"]
        if k == "call":
            print("    %s = %s(%s) -> bb%s   %s" % (pl(fn, t["dest"]), t["callee"]["full"], ", ".join(op(fn, a) for a in t["args"]), t["t"], t["sp"].get("ex", "")))
        elif k == "switch":
            print("    switch %s %s else bb%d" % (op(fn, t["discr"]), ["%s->bb%d" % (v, b_) for v, b_ in t["targets"]], t["otherwise"]))
        elif k == "assert":
            print("    assert %s [%s] -> bb%d" % (t["kind"], ", ".join(op(fn, a) for a in t["ops"]), t["t"]))
        elif k == "drop":
            print("    drop(%s) -> bb%d" % (pl(fn, t["place"]), t["t"]))
        elif k == "goto":
            print("    goto bb%d" % t["t"])
        else:
            print("    %s" % k)


if __name__ == "__main__":
    F = facts.load(os.environ.get("CFG", "prod"))
    for a in sys.argv[1:]:
        for f in F.find(a):
            dump(f)
            print()
