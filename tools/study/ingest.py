#!/usr/bin/env python3
"""usage: ingest.py ID variant "needs text"  -- after verify_seed.sh succeeded, copy into /verif/seeded/<ID><variant>/ with meta.json"""
import json, os, re, shutil, sys
ID, V, needs = sys.argv[1], sys.argv[2], sys.argv[3]
PROP = 'C' + ID[1:] if ID.startswith('W') else ID
log = open('/tmp/wt/verify_%s_%s.log' % (ID, V)).read()
m = re.search(r"SUMMARY \S+ demo_nopatch_rc=(\d+) demo_patch_rc=(\d+) pinned_rc=(\d+)", log)
assert m, "no summary"
a, b, c = map(int, m.groups())
assert a == 0 and b != 0 and c == 0, (a, b, c)
native = re.findall(r"== native test_module with patch only\n(test result: .*)", log)
src = '/tmp/wt/%s-out/%s' % (ID, V)
dst = '/verif/seeded/%s%s' % (PROP, V)
os.makedirs(dst, exist_ok=True)
for f in ('patch.diff', 'demo.diff', 'notes.md'):
    shutil.copy(os.path.join(src, f), os.path.join(dst, f))
files = sorted(set(re.findall(r"^diff --git a/(\S+)", open(os.path.join(src, 'patch.diff')).read(), re.M)))
meta = {"property": PROP, "variant": V, "files_changed": files, "needs_to_manifest": needs,
        "origin": "independent sub-agent given only the property text and a scratch worktree",
        "confirmed_by_me": {
            "demo_without_patch": "pass (rc 0)", "demo_with_patch": "fail (rc %d)" % b,
            "pinned_suite_with_patch_only": "407/407",
            "native_test_module_with_patch_only": native[0] if native else "n/a",
            "commands": ["git apply demo.diff; cargo test -p aquavm-air --features air-test-utils/test_with_native_code --offline --test test_module seeded_",
                         "git apply patch.diff; (same command)", "pinned: cargo nextest run --workspace (407 pinned tests compared by name)"]}}
json.dump(meta, open(os.path.join(dst, 'meta.json'), 'w'), indent=1)
print("ingested", dst)
