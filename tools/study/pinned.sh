#!/bin/bash
# usage: pinned.sh <worktree-dir>
# Runs the repository's pinned test suite (407 tests that pass on the unmodified tree) in <worktree-dir>
# and reports whether all of them still pass.  Tests outside the pinned list (332 need a wasm interpreter
# that is not available here and always fail) are ignored.
set -u
wt=${1:?worktree dir}
cd "$wt" || exit 9
rm -f target/nextest/pb/junit.xml
CARGO_NET_OFFLINE=true cargo nextest run --workspace --no-fail-fast --tool-config-file pb:/w/lib/nextest.toml --profile pb --test-threads 8 --offline > /tmp/wt/pinned.$$.log 2>&1
if [ ! -f target/nextest/pb/junit.xml ]; then echo "PINNED: BUILD FAILED"; tail -40 /tmp/wt/pinned.$$.log; rm -f /tmp/wt/pinned.$$.log; exit 2; fi
python3 - "$wt" <<'E'
import json, sys, xml.etree.ElementTree as ET
b = json.load(open('/root/.vp/BASELINE.json'))
root = ET.parse(sys.argv[1] + '/target/nextest/pb/junit.xml').getroot()
passed, failed = set(), set()
for tc in root.iter('testcase'):
    tid = (tc.get('classname') or '') + '::' + (tc.get('name') or '')
    if tc.find('failure') is not None or tc.find('error') is not None or tc.find('flakyFailure') is not None or tc.find('rerunFailure') is not None:
        failed.add(tid)
    elif tc.find('skipped') is None:
        passed.add(tid)
passed -= failed
missing = [t for t in b['stable_pass'] if t not in passed]
print('PINNED: %d/%d pinned tests pass' % (len(b['stable_pass']) - len(missing), len(b['stable_pass'])))
for t in missing[:40]:
    print('  NOT PASSING:', t)
sys.exit(1 if missing else 0)
E
rc=$?
rm -f /tmp/wt/pinned.$$.log
exit $rc
