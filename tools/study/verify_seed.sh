#!/bin/bash
# usage: verify_seed.sh <ID> <variant> [demo command]   (run inside worktree /tmp/wt/<ID>)
# confirms: demo passes without patch, fails with patch, pinned suite 407/407 with patch only.
ID=$1; V=$2; shift 2
DEMO=${*:-cargo test -p aquavm-air --features air-test-utils/test_with_native_code --offline --test test_module seeded_}
wt=/tmp/wt/$ID; out=/tmp/wt/$ID-out/$V
cd $wt || exit 9
git checkout -q -- . && git clean -fdq -e target
git apply $out/demo.diff || { echo "DEMO DOES NOT APPLY"; exit 1; }
echo "== demo without patch"; ( eval "$DEMO" ) > /tmp/wt/$ID-$V-nopatch.log 2>&1; rc1=$?; grep -E "^test result|panicked|FAILED|failed" /tmp/wt/$ID-$V-nopatch.log | head -5; echo "rc=$rc1"
git apply $out/patch.diff || { echo "PATCH DOES NOT APPLY"; exit 1; }
echo "== demo with patch"; ( eval "$DEMO" ) > /tmp/wt/$ID-$V-patch.log 2>&1; rc2=$?; grep -E "^test result|panicked|FAILED" /tmp/wt/$ID-$V-patch.log | head -8; echo "rc=$rc2"
git checkout -q -- . && git clean -fdq -e target
git apply $out/patch.diff
echo "== pinned with patch only"; /tmp/wt/pinned.sh $wt | head -5; rc3=${PIPESTATUS[0]}
echo "== native test_module with patch only"; cargo test -p aquavm-air --features air-test-utils/test_with_native_code --offline --test test_module 2>&1 | grep -E "^test result" | tail -1
git checkout -q -- . && git clean -fdq -e target
echo "SUMMARY $ID/$V demo_nopatch_rc=$rc1 demo_patch_rc=$rc2 pinned_rc=$rc3"
