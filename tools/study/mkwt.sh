#!/bin/bash
# usage: mkwt.sh <name>...  -- creates /tmp/wt/<name> worktrees of /repo HEAD with a warmed target dir copied from the probe
for n in "$@"; do
  d=/tmp/wt/$n
  [ -d "$d" ] && continue
  git -C /repo worktree add --detach "$d" HEAD >/dev/null 2>&1 || { echo "worktree add failed $n"; continue; }
  cp -a /tmp/wt/probe/target "$d/target"
  mkdir -p /tmp/wt/$n-out
  echo "ready $d"
done
