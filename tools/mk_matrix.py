#!/usr/bin/env python3
"""Rewrites the generated tables of DESIGN.md (§11 seeded defects, §12 behaviour-preserving edits) from
selftest/RESULTS.json (written by tools/mutrun.py) and seeded/*/meta.json."""
import glob, json, os, re
HERE = os.path.dirname(os.path.dirname(os.path.abspath(__file__)))
res = json.load(open(os.path.join(HERE, "selftest", "RESULTS.json")))

rows = ["| id | written for | site changed | needs, to manifest | reported by | own check |", "|---|---|---|---|---|---|"]
n_ok = n = 0
for d in sorted(glob.glob(os.path.join(HERE, "seeded", "*"))):
    mp = os.path.join(d, "meta.json")
    if not os.path.exists(mp):
        continue
    m = json.load(open(mp))
    if m.get("benign"):
        continue
    name = os.path.basename(d)
    r = res.get(name)
    fired = ", ".join(r["fired"]) if r else "(not run yet)"
    own = "—"
    if r:
        n += 1
        own = "**yes**" if m["property"] in r["fired"] else "NO"
        n_ok += own == "**yes**"
    files = ", ".join(os.path.basename(f) for f in m.get("files_changed", []))
    rows.append("| %s | %s | %s | %s | %s | %s |" % (name, m["property"], files, m.get("needs_to_manifest", "")[:170], fired or "nothing", own))
rows.append("")
rows.append("%d of %d seeded defects are reported by the check of the property they were written for." % (n_ok, n))
seeded = "\n".join(rows)

b = ["| patch | kind of edit (see `selftest/benign/*-notes.md`) | checks run | alarms |", "|---|---|---|---|"]
nb = nbad = 0
for name, r in sorted(res.items()):
    if r["kind"] != "benign":
        continue
    nb += 1
    nbad += bool(r["fired"])
    b.append("| %s | %s | %s | %s |" % (name, "agent-made refactoring" if name.startswith("ALL__") else "hand-made", r["checks_run"] if isinstance(r["checks_run"], str) else ",".join(r["checks_run"]),
                                     ", ".join(r["fired"]) or "none"))
b.append("")
b.append("%d behaviour-preserving edits, %d raise an alarm with the current rules." % (nb, nbad))
benign = "\n".join(b)

p = os.path.join(HERE, "DESIGN.md")
s = open(p).read()
s = re.sub(r"(<!-- MATRIX:SEEDED:BEGIN -->\n).*?(\n<!-- MATRIX:SEEDED:END -->)", lambda m_: m_.group(1) + seeded + m_.group(2), s, flags=re.S)
s = re.sub(r"(<!-- MATRIX:BENIGN:BEGIN -->\n).*?(\n<!-- MATRIX:BENIGN:END -->)", lambda m_: m_.group(1) + benign + m_.group(2), s, flags=re.S)
open(p, "w").write(s)
print("seeded rows:", n, "own-check:", n_ok, "| benign:", nb, "alarms:", nbad)
