#!/bin/bash
# usage: mut.sh <file-in-repo> <sed-expr> <check ids...>   -- applies a sed mutation to /repo, runs checks, reverts.
f=$1; e=$2; shift 2
cd /repo || exit 9
sed -i "$e" "$f"
if git diff --quiet; then echo "MUTATION DID NOT APPLY"; exit 9; fi
git diff | grep '^[+-]' | grep -v '^+++\|^---'
for c in "$@"; do (cd /verif && ./check $c 2>&1 | grep -v "^\[facts\]" | tail -8); done
git checkout -- .
