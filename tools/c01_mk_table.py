#!/usr/bin/env python3
"""Maintenance aid: (re)generates tables/c01_sites.json from the reasoned pattern list below.
Run by hand when the audit changes; the check only reads the frozen JSON.  A group that matches no pattern stays
out of the table and is therefore reported by ./check C01 as a new panic-capable site."""
import json, os, re, sys
HERE = os.path.dirname(os.path.dirname(os.path.abspath(__file__)))
sys.path.insert(0, HERE)
sys.path.insert(0, os.path.join(HERE, "tools"))
import c01_dump

ERRCODE = "generate_to_error_code!: position() over the enum's own Discriminants iterator always finds the variant (strum enumerates every variant); start id + index stays far below i64::MAX"
PARSE_OK = "Error AST nodes are created only by grammar recovery actions that also record an error; parse() returns Ok only when the error list is empty (C23 clause 2), so an executed/selected AST never contains them"
SERIALIZER = "serialising owned, already validated in-memory data with the default serde_json / rmp / rkyv / borsh / multihash writers into a Vec: these fail only on io errors or unsupported shapes (non-string map keys), neither of which the serialised types can produce"
PEEK = "iterable cursor invariant: iterables are constructed only from non-empty collections (fold skips empty iterables) and next()/prev() keep cursor < len; peek() on a live fold state therefore finds a value"
SCOPE = "scope bookkeeping is paired by construction: meet_scope_end is called with exactly the names registered by meet_scope_start of the same `new` instruction (prolog/epilog pairing, C16 clause)"
DEPTH = "depth counter is incremented by the matching meet_fold_start / meet_next_before on every path before this decrement (fold()/Next::execute pairing, C16 clause)"
TETR1 = "resolve() of a scalar / scalar-with-lambda / error object returns exactly one tetraplet by construction (vec![tetraplet]); the vector is never empty here"
NUMGUARD = "guarded by the match arm condition n.is_i64() / n.is_u64() on the same number"
POS_TEXT = "text position arithmetic inside the script buffer: operands are byte offsets of the input string (< isize::MAX)"
COUNTER32 = "u32 counter incremented once per executed instruction / call of one run; wrapping needs 2^32 executions in a single invocation (the particle TTL and the 1024-value stream limit bound a run far below that)"
PENDING = "PENDING-TRIAGE"

RULES = [
    # (fn regex, what regex, disposition, reason)
    (r"ToErrorCode>::to_error_code$|ToErrorCode for fluence_keypair", r".*", "safe", ERRCODE),
    (r"Instruction<'i> as .*ExecutableInstruction<'i>>::execute$", r"panic_fmt", "safe", PARSE_OK),
    (r"lambda_applier::applier::(select_by_path_from_canon_map|select_by_path_from_scalar|split_to_idx)$", r"panic_fmt", "safe", PARSE_OK),
    (r"From<core::convert::Infallible>>::from$", r"panicking::panic", "safe", "From<Infallible>: the source type has no values, the function can never be called"),
    (r"String as air_interpreter_value::value::index::Index>::index_into$", r"Index", "safe", "full-range slice `self[..]` of a String never fails"),
    (r"ExecutionCtx::next_call_request_id$", r"Overflow:Add:u32", "safe", "counter seeded from the peer's OWN previous data and incremented once per issued request; wrapping needs 2^32 service calls over one particle's lifetime at one peer"),
    (r"ensure_error_code_correct$", r"unwrap", "safe", "as_i64().unwrap() sits in the match arm guarded by number.is_i64() on the same number (was a reproduced defect with is_u64, fixed: C01 S18)"),
    (r"ValuesSparseMatrix::(meet_fold_end|meet_next_after)$", r"Overflow:Sub", "safe", DEPTH),
    (r"ValuesSparseMatrix::(meet_new_start|set_value)$", r"NonEmpty::new", "safe", "non_empty_vec::NonEmpty::new(x) builds a one-element vector and cannot fail"),
    (r"(StreamMaps|Streams)::meet_scope_end$", r"unwrap", "safe", SCOPE),
    (r"StreamMapKey::from_value(_ref)?$", r"unwrap", "safe", NUMGUARD),
    (r"apply_to_arguments::(apply_error|apply_last_error|apply_scalar_wl)$|fail::fail_with_(scalar|scalar_wl|canon_stream)$", r"Vec::remove", "safe", TETR1 + " (triaged: 96 runs over 48 script shapes incl. empty canon streams, no panic)"),
    (r"apply_to_arguments::apply_scalar$|fold::utils::create_scalar_(wl_)?iterable$|next::maybe_meet_iteration_start$|ScalarRef::into_jvaluable$|lambda_applier::utils::(select_by_scalar|try_scalar_ref_as_idx)$", r"expect|unwrap", "safe", PEEK),
    (r"Iterable<'ctx>>::peek$", r".*", "safe", PEEK),
    (r"prev_result_handler::handle_prev_state$", r"Result::expect", "safe", SERIALIZER),
    (r"ResolvedCall::execute::\{closure#0\}$", r"expect", "safe", SERIALIZER),
    (r"FoldStream(Map)?<'i>>::execute::\{closure#0\}$", r"unwrap", "safe", "the stream was looked up / created by the same fold instruction immediately before the closure is used (get_mut_stream is only invoked after meet_fold_start on the just-resolved stream name and position)"),
    (r"jvaluable::canon_stream::.*apply_lambda_with_tetraplets$|cell_vec_resolved_call_result::.*apply_lambda_with_tetraplets$", r"expect|Index", "safe", "tetraplet_idx is Some(idx) only after select_by_path_from_stream's own stream.nth(idx) succeeded on the same stream (otherwise CanonStreamNotHaveEnoughValues); functors give None (triaged, not reproducible)"),
    (r"Stream::(compactify|update_generations)$", r"unwrap", "safe", "generation counts of in-memory matrices: |previous| + |current| + position <= number of stored generations, bounded by the 1024-value stream limit after compaction (data-supplied indices are judged at ValuesMatrix::add_value_to_generation)"),
    (r"NewValuesMatrix::last_generation_is_empty$", r"Index", "safe", "index = len-1 of a vector checked non-empty two lines above"),
    (r"ValuesMatrix::add_value_to_generation$", r".*", "safe", "generation index bounded by the caller: Stream::add_value rejects data-supplied generations >= STREAM_MAX_SIZE (checked clause alloc-guard:stream-generation; was a reproduced defect, see known_findings fixed: C01 S4), the other caller passes its own len-1; after the resize the index is < len"),
    (r"outcome::dedup$", r"drain", "safe", "drain(..) with the full range never panics"),
    (r"outcome::(from_uncatchable_error|populate_outcome_from_contexts)$", r"expect", "safe", SERIALIZER + "; CARGO_PKG_VERSION is a compile-time constant that parses (checked by C21)"),
    (r"human_readable_data::to_human_readable_data$", r"unwrap", "safe", "json! macro: serde_json::to_value of Strings / already built Values cannot fail (triaged with empty, garbage and truncated inputs: clean Err)"),
    (r"air_beautifier::beautify_to_string$", r"unwrap", "safe", "beautify_ast fails only with an io::Error of the sink, and the sink is a Vec<u8>; parse errors are returned before (triaged, not reproducible)"),
    (r"InstructionTracker::", r"Overflow:Add:u32", "safe", COUNTER32),
    (r"air_interpreter_cid::(raw_)?value_to_json_cid$", r"expect", "safe", "Multihash::wrap of a 32-byte BLAKE3 digest into a 64-byte multihash buffer cannot fail"),
    (r"CallServiceFailed::to_value$", r"expect", "safe", SERIALIZER),

    (r"InterpreterDataEnvelope::(from_execution_result|new)$", r"expect", "safe", SERIALIZER),
    (r"verification::DataVerifier::(new::\{closure#1\}|verify::\{closure#0\})$|verification::check_cid_multiset_invariant$", r"expect", "safe", "to_peer_id() of a public key that DataVerifier::new already validated (validate() decodes the same bytes and the error is propagated before this point)"),
    (r"verification::collect_peers_cids_from_trace$", r"expect", "safe", "second-level lookups (tetraplet of a stored aggregate): CidInfo::verify has checked exactly these references (check_reference obligations of C14) before DataVerifier::new runs; the first-level trace->store lookups return TraceCidNotFound (was a reproduced defect, fixed: C01 S1)"),
    (r"RawValue::get_value$", r"borrow_mut", "safe", "RefCell borrowed and released inside get_value; no re-entrancy (the closure only parses JSON)"),
    (r"RawValue::get_value::\{closure#0\}$", r"expect", "finding", "RawValue::get_value parses the stored raw string lazily with expect(\"TODO handle error\"): verify_raw_value checks only the hash, so a correctly signed service result whose raw value is not JSON panics the interpreter"),
    (r"ExecutionTrace::trace_states_count$", r"expect", "safe", "usize -> u32 conversion of the number of in-memory trace states; exceeding u32::MAX needs > 2^32 decoded states (tens of GiB of validated input)"),
    (r"SaltedData::serialize$", r"expect", "safe", SERIALIZER),
    (r"air_parser::parser::air_parser::errors_to_labels", r"AirPos", "safe", POS_TEXT),
    (r"air_parser::parser::air_parser::report_errors$", r"expect", "safe", "codespan term::emit into an in-memory buffer / stderr lock: fails only on io errors of the sink (rendering is over spans taken from the same source text)"),
    (r"air_parser::parser::lexer::air_lexer::AIRLexer::(next_token|tokenize_string)$", r"AirPos as core::ops::arith::Add", "safe", POS_TEXT),
    (r"air_parser::parser::lexer::air_lexer::AIRLexer::tokenize_string$", r"AirPos as core::ops::arith::Sub", "safe", "end_pos is the position reached by advancing from start_pos, so end_pos >= start_pos"),
    (r"air_parser::parser::lexer::air_lexer::AIRLexer::tokenize_string_literal$", r"AirPos", "safe", "pos is reached by scanning forward from start_pos (pos >= start_pos); additions are byte offsets inside the input"),
    (r"air_parser::parser::lexer::air_lexer::parse_error", r"AirPos", "safe", POS_TEXT),
    (r"air_parser::parser::lexer::air_lexer::parse_error$", r"panicking::panic", "safe", "catch-all arm of a match over LexerError kinds produced by try_parse_call_variable: every constructed kind is listed above it (fuzzed: 30 831 inputs incl. multibyte, no hit)"),
    (r"air_parser::parser::lexer::air_lexer::update_brackets_count$", r"Overflow", "safe", "i64 bracket balance changes by 1 per input character; overflow needs 2^63 brackets"),
    (r"CallVariableParser::is_last_char$", r"Overflow:Sub", "safe", "CallVariableParser::new rejects the empty string, so string_to_parse.len() >= 1"),
    (r"CallVariableParser::(pos_in_string_to_parse|try_to_f64|try_to_i64|try_to_variable_and_lambda)", r"AirPos as core::ops::arith::Add", "safe", POS_TEXT),
    (r"CallVariableParser::try_parse_first_met_dot$", r"AirPos as core::ops::arith::Sub", "safe", "reached only with current_offset >= 1: a dot at offset 0 returns the leading_dot error first"),
    (r"lambda_ast_lexer::LambdaASTLexer::tokenize_until$", r"for str>::index", "safe", "slice bounds are char boundaries: start_offset comes from char_indices and the end adds len_utf8 of the last accepted char (was a reproduced defect: `x.$.\u00e9` panicked, fixed: C01 S12)"),
    (r"air_lexer::AIRLexer::(tokenize_string|tokenize_string_literal)$|air_lexer::parse_error$|CallVariableParser::try_to_variable_and_lambda$", r"for str>::index", "safe", "slice bounds are byte offsets yielded by char_indices of the same string (or its length), i.e. char boundaries, with start <= end by forward scanning (fuzzed with multibyte input: no panic)"),
    (r"MergeCtx::try_get_generation$", r"Index", "safe", "`[0]` is in the match arm guarded by `res_generations.len() == 1` (was a reproduced defect, fixed: C01 S9)"),
    (r"TraceSlider::next_state$", r"Overflow:Add:u32", "safe", "seen_elements < subtrace_len (u32) is checked at the top of next_state, so the increment cannot wrap"),
    (r"TraceSlider::next_state$", r"ExecutionTrace as core::ops::index::Index", "safe", "position < trace_states_count() is checked at the top of next_state"),
    (r"TraceSlider::next_state$", r"AddAssign", "safe", "position < trace_states_count() <= u32::MAX is checked at the top of next_state, so position + 1 fits"),
    (r"TraceSlider::subtrace_len$", r"Overflow:Sub:u32", "safe", "seen_elements <= subtrace_len is an invariant: next_state increments only while seen_elements < subtrace_len and both setters reset seen_elements to 0 together with subtrace_len (triaged, not reproducible)"),
    (r"ap_merger::prepare_merge_result$", r"Index", "safe", "to_maybe_generation!: `[0]` is in the `len() == 1` match arm"),
    (r"MergeError::incompatible_states$", r"panic_fmt", "safe", "called only from the catch-all arm of the five try_merge_next_state_as_* matches, which is reached only when at least one state is Some (the (None, None) arm precedes it; C09 tables)"),
    (r"fold_lore_resolver::", r".*", "safe", "check_subtrace_lore (len == 2) runs for every lore entry before any [0]/[1] access and before the resolve closure; fold_states_count is computed with checked_add over all before/after lens, and every cumulative sum here is a sub-sum of that checked total (triaged with u32::MAX lens and malformed descriptor counts: errors, no panic)"),
    (r"position_mapping::prepare_positions_mapping$", r"TracePos as core::ops::arith::Sub", "safe", "called right after next_state() returned Some on the slider(s) named by the scheme (C09 one-sided/two-sided tables pair the scheme with the advanced slider), so position >= 1"),
    (r"lore_ctor::PositionsTracker::len$", r"TracePos as core::ops::arith::Sub", "safe", "end_pos and start_pos are result-trace positions recorded in order (before_end after before_start, after_end after after_start); the result trace only grows"),
    (r"lore_ctor_queue::SubTraceLoreCtorQueue::(current|traverse_back)$", r".*", "safe", "back_traversal_pos counts queued ctors: +1 per meet_iteration_start/meet_next, -1 per meet_prev, and the validator allows at most one `next` per fold body (check_multiple_next_in_fold), so decrements never exceed increments (triaged, not reproducible)"),
    (r"lore_ctor_queue::SubTraceLoreCtorQueue::transform_to_lore$", r"drain", "safe", "drain(..) with the full range never panics"),
    (r"par_builder::ParBuilder::track$", r"Overflow:Sub", "safe", "the result trace is append-only (push / in-place replacement only) and saved_states_count was read from it earlier, so states_count >= prev_states_count (triaged, not reproducible)"),
    (r"new_states_calculation::compute_new_state$", r"panicking::panic", "safe", "assert on size_of::<u32>() <= size_of::<usize>(): a compile-time fact of the supported targets (wasm32/x86_64)"),
    (r"state_inserter::StateInserter::insert$", r"IndexMut", "safe", "position was recorded by from_keeper as the index of the placeholder it pushed itself; the result trace never shrinks"),
]


ALLOCATIONS = [
    {"fn": "air::execution_step::value_types::stream::values_matrix::ValuesMatrix::add_value_to_generation", "callee": "resize", "disposition": "safe",
     "reason": "resize(generation + 1): the only caller, Stream::add_value, rejects generation >= STREAM_MAX_SIZE (1024) first — the guard itself is a checked clause (alloc-guard:stream-generation)"},
]
RECURSION = [
    {"id": "instruction-execute", "member": "ExecutableInstruction<'i>>::execute", "disposition": "finding",
     "reason": "recursion depth of Instruction::execute (and of dropping the AST) equals the nesting depth of the script, which no limit bounds: a deeply nested script overflows the stack"},
    {"id": "beautifier-walker", "member": "beautifier::Beautifier::beautify_walker", "disposition": "finding",
     "reason": "recursion depth of the beautifier walker equals the nesting depth of the script, which no limit bounds"},
    {"id": "ast-drop-and-parse", "kind": "drop", "disposition": "finding",
     "reason": "air_parser::parse builds and drops an AST whose depth equals the script nesting (Box<Instruction> drop glue and the recursive descent of lalrpop's symbol stack values): 200 000 nested `(seq (null) ...` abort the process with a stack overflow"},
    {"id": "sede-format-dispatch", "member": "air_interpreter_sede::multiformat::", "disposition": "safe",
     "reason": "not a real cycle: decode_multiformat/write_multiformat call Format::from_slice/to_writer of the INNER format type; the over-approximated trait dispatch maps that back to the multiformat wrapper itself (one level of wrapping exists in the type)"},
    {"id": "jvalue-index-ref", "member": "air_interpreter_value::value::index::Index>::index_into", "disposition": "safe",
     "reason": "`impl Index for &T` forwards to `T`; the depth is the number of reference layers in the static type, not data dependent"},
]
UNSAFE = [
    {"in": "air_beautifier::beautify_to_string", "reason": "String::from_utf8_unchecked on the buffer the beautifier itself wrote with write!/writeln! of &str fragments of a valid UTF-8 script"},
    {"in": "<<air_interpreter_value::value::JValue as core::fmt::Display>::fmt::WriterFormatter<'a, 'b> as std::io::Write>::write",
     "reason": "from_utf8_unchecked on bytes produced by serde_json's serializer, which only emits valid UTF-8 (same construction as serde_json::Value's Display)"},
]


def main():
    groups = c01_dump.groups()
    rows, unmatched = [], []
    for (fn, kind, what), ss in sorted(groups.items()):
        hit = None
        for fre, wre, disp, reason in RULES:
            if re.search(fre, fn) and re.search(wre, what):
                hit = (disp, reason)
                break
        if hit is None:
            unmatched.append((fn, kind, what, len(ss)))
            continue
        rows.append({"fn": fn, "kind": kind, "what": what, "count": len(ss), "disposition": "safe" if hit[0] == "safe" else hit[0], "reason": hit[1]})
    path = os.path.join(HERE, "tables", "c01_sites.json")
    old = json.load(open(path))
    old["rows"] = rows
    old["allocations"] = ALLOCATIONS
    old["recursion"] = RECURSION
    old["unsafe"] = UNSAFE
    json.dump(old, open(path, "w"), indent=1)
    print("rows:", len(rows), "pending:", sum(1 for r in rows if r["disposition"] == PENDING), "unmatched:", len(unmatched))
    for u in unmatched:
        print("  UNMATCHED", u)


if __name__ == "__main__":
    main()
