#!/usr/bin/env python3
"""Maintenance aid for the C01 site table: lists every non-auto-discharged site group with source lines."""
import json, linecache, os, sys
sys.path.insert(0, os.path.dirname(os.path.dirname(os.path.abspath(__file__))))
from rules import facts, lib
from props import census, C01

def groups():
    F = facts.load()
    reach, parent, roots, extra = census.reach_set(F)
    wrapper_ids = {f.id for w in C01.WRAPPERS for f in F.fns.values() if f.path.endswith(w)}
    sites = [s for s in census.panic_sites(F, reach) if s["fn"].id not in wrapper_ids]
    for fid in sorted(reach):
        fn = F.fns[fid]
        if fid in wrapper_ids:
            continue
        feas = census.feasible_blocks(fn)
        for c in fn.calls:
            if c.cid in wrapper_ids and c.bb in feas:
                sites.append({"kind": "call", "what": c.path, "fn": fn, "bb": c.bb, "ex": c.ex, "loc": c.loc(), "term": c.term, "msg": None,
                              "generated_fn": census.is_generated_fn(fn), "generated_site": census.site_generated(c.ex)})
    g = {}
    for s in sites:
        if C01.auto_discharge(s):
            continue
        what = s["what"] if s["kind"] == "call" else "%s:%s" % (s["what"], s["oty"])
        loc = s["loc"]
        f, l = loc.split(":")[0], int(loc.split(":")[1])
        src = linecache.getline(os.path.join(facts.REPO, f), l).strip()
        g.setdefault((s["fn"].path, s["kind"], what), []).append({"loc": loc, "src": src, "msg": s.get("msg"), "ex": s["ex"]})
    return g

if __name__ == "__main__":
    for (fn, kind, what), ss in sorted(groups().items()):
        print("%s | %s | %s | x%d" % (fn, kind, what, len(ss)))
        for s in ss:
            print("      %s: %s  %s" % (s["loc"], s["src"][:140], ("msg=" + s["msg"][:60]) if s["msg"] else ""))
