#!/usr/bin/env python3
"""Maintenance aid: freezes, for every hand-written workspace function of today's tree, (a) its parameter and
closure-capture names by POSITION and (b) a structural fingerprint (parameter/return types, callee names) into
tables/fn_table.json.  The fact loader uses it to keep the rules insensitive to two behaviour-preserving edits:
a renamed parameter is mapped back to its audited name (position and type list decide), and a renamed / moved
function is re-bound to its audited path when exactly one new function has the same signature and a matching
callee fingerprint (rules/facts.py: Fn._canonicalise_names, Facts._rebind_renamed)."""
import json, os, sys
HERE = os.path.dirname(os.path.dirname(os.path.abspath(__file__)))
sys.path.insert(0, HERE)
os.environ["VERIF_NO_FN_TABLE"] = "1"
from rules import facts
F = facts.load("prod")
out = {}
for f in F.fns.values():
    if any("derive" in x for x in f.ex):
        continue
    ent = {"crate": f.crate, "ret": facts.norm_ty(f.locals[0])}
    ent["tys"] = [facts.norm_ty(t) for t in f.locals[1:f.argc + 1]]
    ent["names"] = [f.names.get(i) for i in range(1, f.argc + 1)]
    if f.kind == "Closure":
        ent["upvars"] = [[facts.upvar_key(pl), n] for n, pl in f.name_places if pl["l"] == 1 and pl["p"]]
    else:
        ent["callees"] = sorted({facts.callee_tag(c.path) for c in f.calls})[:60]
    out[f.path] = ent
with open(os.path.join(HERE, "tables", "fn_table.json"), "w") as fh:
    json.dump(out, fh, indent=0, sort_keys=True)
print(len(out), "functions")
