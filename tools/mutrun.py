#!/usr/bin/env python3
"""Checker self-test driver (DESIGN §8), parallel and off-tree: every patch is applied to a private git worktree of
/repo (never to /repo itself), analysed with a private work/evidence directory, and reverted.

  mutrun.py [-j N] [--all-checks] <kind> [filter]
     kind = mutants | benign   patches under selftest/<kind>/NAME.diff ; the checks to run come from the file name
                               (`C05+C19__what.diff`), unless --all-checks
     kind = seeded             seeded/<id>/patch.diff ; every registered check is run; meta.json names the property

Expectation: mutants/seeded -> the named check(s) print VIOLATION ; benign -> no check prints VIOLATION.
Results: .work/mutrun/<kind>.json and a table on stdout.  Exit 1 if an expectation failed."""
import argparse, glob, json, os, subprocess, sys, shutil, threading, queue, time
HERE = os.path.dirname(os.path.dirname(os.path.abspath(__file__)))
BASE = "/var/tmp/verif-mut"
KIND = "x"
QUIET = False
ALL = ["C%02d" % i for i in range(1, 29)]


def sh(cmd, **kw):
    return subprocess.run(cmd, stdout=subprocess.PIPE, stderr=subprocess.STDOUT, text=True, **kw)


def worker(i, q, results, all_checks):
    wdir = os.path.join(BASE, KIND, "w%d" % i)
    repo = os.path.join(wdir, "repo")
    os.makedirs(wdir, exist_ok=True)
    if not os.path.isdir(repo):
        r = sh(["git", "-C", "/repo", "worktree", "add", "--detach", repo, "HEAD"])
        if r.returncode != 0:
            print("worktree add failed:", r.stdout)
            return
    else:
        sh(["git", "-C", repo, "checkout", "--detach", sh(["git", "-C", "/repo", "rev-parse", "HEAD"]).stdout.strip()])
        sh(["git", "-C", repo, "checkout", "--", "."])
        sh(["git", "-C", repo, "clean", "-fdq", "-e", "target"])
    env = dict(os.environ, VERIF_REPO=repo, VERIF_WORK=os.path.join(wdir, "work"), VERIF_EVIDENCE=os.path.join(wdir, "evidence"), VERIF_TIER="quick")
    env.pop("VERIF_CONFIG", None)
    warm = os.path.join(HERE, ".work", "target")
    if not os.path.isdir(os.path.join(wdir, "work", "target")) and os.path.isdir(warm):
        # dependency artefacts are path-independent: start from the main fact build's target dir instead of a cold build
        os.makedirs(os.path.join(wdir, "work"), exist_ok=True)
        sh(["cp", "-a", warm, os.path.join(wdir, "work", "target")])
    while True:
        try:
            kind, name, patch, props, expect_prop = q.get_nowait()
        except queue.Empty:
            return
        t0 = time.time()
        r = sh(["git", "-C", repo, "apply", patch])
        rec = {"name": name, "kind": kind, "expected": expect_prop, "checks": {}, "applied": r.returncode == 0}
        if r.returncode != 0:
            rec["error"] = r.stdout[-400:]
            results.append(rec)
            if not QUIET:
                print("%-8s %-62s CANNOT APPLY" % (kind, name[:62]), flush=True)
            continue
        try:
            for c in (ALL if all_checks else props):
                out = sh([os.path.join(HERE, "check"), c, "--tier", "quick"], env=env)
                fired = ("VIOLATION property=%s" % c) in out.stdout
                first = [l.strip() for l in out.stdout.splitlines() if l.startswith("  %s:" % c)]
                rec["checks"][c] = {"fired": fired, "rc": out.returncode, "first": first[0][:300] if first else "", "n": len(first)}
                if out.returncode == 2:
                    rec["checks"][c]["cannot"] = out.stdout[-600:]
        finally:
            sh(["git", "-C", repo, "checkout", "--", "."])
            sh(["git", "-C", repo, "clean", "-fdq", "-e", "target"])
        rec["wall"] = round(time.time() - t0, 1)
        fired = sorted(c for c, v in rec["checks"].items() if v["fired"])
        cannot = any(v["rc"] == 2 for v in rec["checks"].values())
        if kind == "benign":
            ok = not fired and not cannot
        else:
            ok = all(rec["checks"].get(c, {}).get("fired") for c in expect_prop) if expect_prop else bool(fired)
        rec["ok"] = ok
        results.append(rec)
        if not QUIET:
            print("%-8s %-62s %-4s fired=%s%s" % (kind, name[:62], "ok" if ok else "FAIL", ",".join(fired) or "-", " (does not compile)" if cannot else ""), flush=True)


def collect(kind, flt=""):
    items = []
    if kind in ("mutants", "benign"):
        for p in sorted(glob.glob(os.path.join(HERE, "selftest", kind, "*.diff"))):
            base = os.path.basename(p)
            if flt in base:
                props = base.split("__")[0].split("+")
                if props == ["ALL"]:
                    props = list(ALL)
                items.append((kind, base, p, props, props))
    elif kind == "seeded":
        for d in sorted(glob.glob(os.path.join(HERE, "seeded", "*"))):
            p = os.path.join(d, "patch.diff")
            if os.path.exists(p) and flt in d:
                meta = json.load(open(os.path.join(d, "meta.json")))
                k = "benign" if meta.get("benign") else "seeded"
                exp = [] if (k == "benign" or meta["property"] not in ALL) else [meta["property"]]      # no check is claimed for C04: any report counts
                items.append((k, os.path.basename(d), p, ALL, exp))
    return items


def run_items(items, jobs, kind_dir, all_checks=False, quiet=False):
    """Library entry (used by `./check --tier thorough`): runs the given patches off-tree and returns the records."""
    global KIND, QUIET
    KIND = kind_dir
    QUIET = quiet
    q = queue.Queue()
    for it in items:
        q.put(it)
    results = []
    ths = [threading.Thread(target=worker, args=(i, q, results, all_checks)) for i in range(min(jobs, max(1, len(items))))]
    for t in ths:
        t.start()
    for t in ths:
        t.join()
    return sorted(results, key=lambda r: r["name"])


def cleanup(kind_dir):
    base = os.path.join(BASE, kind_dir)
    if not os.path.isdir(base):
        return
    for w in os.listdir(base):
        sh(["git", "-C", "/repo", "worktree", "remove", "--force", os.path.join(base, w, "repo")])
    shutil.rmtree(base, ignore_errors=True)
    sh(["git", "-C", "/repo", "worktree", "prune"])


def main():
    ap = argparse.ArgumentParser()
    ap.add_argument("-j", type=int, default=4)
    ap.add_argument("--all-checks", action="store_true")
    ap.add_argument("kind")
    ap.add_argument("filter", nargs="?", default="")
    a = ap.parse_args()
    global KIND
    KIND = a.kind
    items = collect(a.kind, a.filter)
    q = queue.Queue()
    for it in items:
        q.put(it)
    results = []
    ths = [threading.Thread(target=worker, args=(i, q, results, a.all_checks)) for i in range(min(a.j, max(1, len(items))))]
    for t in ths:
        t.start()
    for t in ths:
        t.join()
    os.makedirs(os.path.join(HERE, ".work", "mutrun"), exist_ok=True)
    out = os.path.join(HERE, ".work", "mutrun", "%s%s.json" % (a.kind, ("-" + a.filter) if a.filter else ""))
    json.dump(sorted(results, key=lambda r: r["name"]), open(out, "w"), indent=1)
    # committed summary (merged by patch name): which checks fired on which catalogued patch
    summ_path = os.path.join(HERE, "selftest", "RESULTS.json")
    try:
        summ = json.load(open(summ_path))
    except (OSError, ValueError):
        summ = {}
    head = sh(["git", "-C", "/repo", "rev-parse", "--short", "HEAD"]).stdout.strip()
    for r in results:
        ran = sorted(r.get("checks", {}))
        summ[r["name"]] = {"kind": r["kind"], "expected": r.get("expected"), "ok": bool(r.get("ok")), "repo_head": head,
                           "checks_run": "all 28" if len(ran) == len(ALL) else ran,
                           "fired": sorted(c for c, v in r.get("checks", {}).items() if v["fired"]),
                           "first_report": {c: v["first"][:220] for c, v in r.get("checks", {}).items() if v["fired"]}}
    json.dump(summ, open(summ_path, "w"), indent=1, sort_keys=True)
    bad = [r["name"] for r in results if not r.get("ok")]
    print("%d patches, %d failed expectations: %s" % (len(results), len(bad), bad))
    return 1 if bad else 0


if __name__ == "__main__":
    sys.exit(main())
