use air_interpreter_interface::*;
use air_interpreter_sede::ToSerialized;
use std::collections::HashMap;

pub struct Peer { pub id: String, pub secret: Vec<u8>, pub prev: Vec<u8> }

pub fn peer(seed: u8) -> Peer {
    let kp = fluence_keypair::KeyPair::from_secret_key(vec![seed; 32], fluence_keypair::KeyFormat::Ed25519).unwrap();
    let id = kp.public().to_peer_id().to_string();
    Peer { id, secret: vec![seed; 32], prev: vec![] }
}

pub fn run(p: &mut Peer, init: &str, air: &str, data: Vec<u8>, results: HashMap<String, CallServiceResult>) -> InterpreterOutcome {
    let params = RunParameters::new(init.to_string(), p.id.clone(), 1, 1, fluence_keypair::KeyFormat::Ed25519.into(), p.secret.clone(),
        "particle".to_string(), u64::MAX, u64::MAX, u64::MAX, false);
    let cr = CallResultsRepr.serialize(&results).unwrap();
    let out = air::execute_air(air.to_string(), p.prev.clone(), data, params, cr);
    if out.ret_code == 0 || (10000..20000).contains(&out.ret_code) { p.prev = out.data.clone(); }
    out
}

fn c03() {
    let mut a = peer(1);
    let mut b = peer(2);
    let air = format!(r#"(seq (xor (call "{a}" ("s" "f") [] x) (null)) (call "{b}" ("s" "g") []))"#, a = a.id, b = b.id);
    for (label, result) in [("control: valid JSON result", "42"), ("non-JSON result with ret_code 0", "not json")] {
        a.prev.clear(); b.prev.clear();
        let aid = a.id.clone(); let o1 = run(&mut a, &aid, &air, vec![], HashMap::new());
        assert_eq!(o1.ret_code, 0);
        let mut res = HashMap::new();
        res.insert("1".to_string(), CallServiceResult { ret_code: 0, result: result.to_string() });
        let o2 = run(&mut a, &aid, &air, vec![], res);
        let o3 = run(&mut b, &aid, &air, o2.data.clone(), HashMap::new());
        println!("C03 {label}: A ret={} next={:?}; B ret={} msg={}", o2.ret_code, o2.next_peer_pks, o3.ret_code, &o3.error_message.chars().take(120).collect::<String>());
    }
}

fn main() {
    let which: Vec<String> = std::env::args().skip(1).collect();
    if which.is_empty() || which.iter().any(|w| w == "c03") { c03(); }
}
