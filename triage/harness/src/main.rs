use air_interpreter_interface::*;
use air_interpreter_sede::ToSerialized;
use std::collections::HashMap;

pub struct Peer { pub id: String, pub secret: Vec<u8>, pub prev: Vec<u8> }

pub fn peer(seed: u8) -> Peer {
    let kp = fluence_keypair::KeyPair::from_secret_key(vec![seed; 32], fluence_keypair::KeyFormat::Ed25519).unwrap();
    let id = kp.public().to_peer_id().to_string();
    Peer { id, secret: vec![seed; 32], prev: vec![] }
}

pub fn run(p: &mut Peer, init: &str, air: &str, data: Vec<u8>, results: HashMap<String, CallServiceResult>) -> InterpreterOutcome {
    let params = RunParameters::new(init.to_string(), p.id.clone(), 1, 1, fluence_keypair::KeyFormat::Ed25519.into(), p.secret.clone(),
        "particle".to_string(), u64::MAX, u64::MAX, u64::MAX, false);
    let cr = CallResultsRepr.serialize(&results).unwrap();
    let out = air::execute_air(air.to_string(), p.prev.clone(), data, params, cr);
    if out.ret_code == 0 || (10000..20000).contains(&out.ret_code) { p.prev = out.data.clone(); }
    out
}

fn c03() {
    let mut a = peer(1);
    let mut b = peer(2);
    let air = format!(r#"(seq (xor (call "{a}" ("s" "f") [] x) (null)) (call "{b}" ("s" "g") []))"#, a = a.id, b = b.id);
    for (label, result) in [("control: valid JSON result", "42"), ("non-JSON result with ret_code 0", "not json")] {
        a.prev.clear(); b.prev.clear();
        let aid = a.id.clone(); let o1 = run(&mut a, &aid, &air, vec![], HashMap::new());
        assert_eq!(o1.ret_code, 0);
        let mut res = HashMap::new();
        res.insert("1".to_string(), CallServiceResult { ret_code: 0, result: result.to_string() });
        let o2 = run(&mut a, &aid, &air, vec![], res);
        let o3 = run(&mut b, &aid, &air, o2.data.clone(), HashMap::new());
        println!("C03 {label}: A ret={} next={:?}; B ret={} msg={}", o2.ret_code, o2.next_peer_pks, o3.ret_code, &o3.error_message.chars().take(120).collect::<String>());
    }
}


// ---- triage group 1 (CID/store suspects S1, S2, S4) ----
mod g1 {
    use super::*;
// ---------------------------------------------------------------------------------------------
// crafted-data helpers
mod craft {
    pub use air_interpreter_cid::{value_to_json_cid, CID};
    pub use air_interpreter_data::*;
    pub use air_interpreter_signatures::{KeyFormat, KeyPair, PeerCidTracker, SignatureStore};
    pub use polyplets::SecurityTetraplet;
    use std::rc::Rc;

    pub fn envelope(trace: Vec<ExecutedState>, cid_info: CidInfo, signatures: SignatureStore) -> Vec<u8> {
        InterpreterDataEnvelope::from_execution_result(
            ExecutionTrace::from(trace), cid_info, signatures, 0, semver::Version::parse("0.64.1").unwrap(),
        ).serialize().unwrap()
    }

    /// keypair of the malicious peer created by `peer(seed)`
    pub fn keypair(seed: u8) -> KeyPair { KeyPair::from_secret_key(vec![seed; 32], KeyFormat::Ed25519).unwrap() }

    /// M signs the given CIDs (salt = particle id used by `run`)
    pub fn sign<T>(seed: u8, peer_id: &str, cids: &[&CID<T>]) -> SignatureStore {
        let kp = keypair(seed);
        let mut tracker = PeerCidTracker::new(peer_id.to_string());
        for cid in cids { tracker.register(peer_id, cid); }
        let mut store = SignatureStore::new();
        store.put(kp.public(), tracker.gen_signature("particle", &kp).unwrap());
        store
    }

    /// RawValue has no constructor from a raw string, but it is #[serde(transparent)] over the raw string.
    pub fn raw_value(raw: &str) -> RawValue { serde_json::from_value(serde_json::Value::String(raw.to_string())).unwrap() }

    /// A consistent CidInfo holding one service result of `(call peer_id ("s" "f") [])` whose raw value is `raw`.
    pub fn service_result(peer_id: &str, raw: &str) -> (CidInfo, CID<ServiceResultCidAggregate>) {
        let mut values = CidTracker::<RawValue>::new();
        let value_cid = values.track_raw_value(raw_value(raw));
        let mut tetraplets = CidTracker::<SecurityTetraplet>::new();
        let tetraplet_cid = tetraplets.track_value(SecurityTetraplet::new(peer_id, "s", "f", "")).unwrap();
        let argument_hash: Rc<str> = value_to_json_cid(&Vec::<serde_json::Value>::new()).unwrap().get_inner();
        let mut results = CidTracker::<ServiceResultCidAggregate>::new();
        let agg_cid = results.track_value(ServiceResultCidAggregate { value_cid, argument_hash, tetraplet_cid }).unwrap();
        let cid_info = CidInfo {
            value_store: values.into(), tetraplet_store: tetraplets.into(), service_result_store: results.into(),
            ..Default::default()
        };
        (cid_info, agg_cid)
    }
}

fn report(id: &str, f: impl FnOnce() -> InterpreterOutcome) {
    let r = std::panic::catch_unwind(std::panic::AssertUnwindSafe(f));
    match r {
        Ok(o) => println!("NOT REPRODUCED {id}: ret_code={} msg={}", o.ret_code, o.error_message.chars().take(200).collect::<String>()),
        Err(e) => {
            let msg = e.downcast_ref::<String>().cloned().or_else(|| e.downcast_ref::<&str>().map(|s| s.to_string())).unwrap_or_default();
            println!("REPRODUCED {id}: {msg}")
        }
    }
}

/// S1: a CID mentioned in the trace that is absent from the (internally consistent, here empty) CID stores.
fn s1() {
    use craft::*;
    let dangling = "bagaaihrarcyykpv4oj7zwdbepczyfthxya4og7s2rwvrzolm5kg2eu5dz3xa";
    let variants: Vec<(&str, ExecutedState)> = vec![
        ("S1/call-executed-scalar", ExecutedState::Call(CallResult::Executed(ValueRef::Scalar(CID::new(dangling))))),
        ("S1/call-executed-stream", ExecutedState::Call(CallResult::Executed(ValueRef::Stream { cid: CID::new(dangling), generation: 0usize.into() }))),
        ("S1/call-failed", ExecutedState::Call(CallResult::Failed(CID::new(dangling)))),
        ("S1/canon-executed", ExecutedState::Canon(CanonResult::Executed(CID::new(dangling)))),
    ];
    for (id, state) in variants {
        report(id, || {
            let mut v = peer(3);
            let vid = v.id.clone();
            let data = envelope(vec![state], CidInfo::default(), SignatureStore::new());
            run(&mut v, &vid, "(null)", data, HashMap::new())
        });
    }
    // service result present, its tetraplet reference is checked by CidInfo::verify -> second expect is guarded
    report("S1/missing-tetraplet (expected to be rejected by CidInfo::verify)", || {
        let mut v = peer(3);
        let vid = v.id.clone();
        let m = peer(4);
        let (mut cid_info, agg) = service_result(&m.id, "1");
        cid_info.tetraplet_store = CidStore::new();
        let data = envelope(vec![ExecutedState::Call(CallResult::Executed(ValueRef::Scalar(agg)))], cid_info, SignatureStore::new());
        run(&mut v, &vid, "(null)", data, HashMap::new())
    });
}

/// S2: value store entry that is not JSON, stored under its correct (raw-bytes) CID and signed by M.
fn s2() {
    use craft::*;
    for (id, raw, failed) in [("S2/control-valid-json", "42", false), ("S2/not-json", "not json", false), ("S2/not-json-in-Failed", "not json", true)] {
        report(id, || {
            let mut v = peer(3);
            let vid = v.id.clone();
            let m = peer(4);
            let (cid_info, agg) = service_result(&m.id, raw);
            let signatures = sign(4, &m.id, &[&agg]);
            let call = if failed { CallResult::Failed(agg) } else { CallResult::Executed(ValueRef::Scalar(agg)) };
            let data = envelope(vec![ExecutedState::Call(call)], cid_info, signatures);
            let air = format!(r#"(call "{}" ("s" "f") [] x)"#, m.id);
            run(&mut v, &vid, &air, data, HashMap::new())
        });
    }
}

/// S4: generation index taken from the data drives `Vec::resize`.
fn s4_ap(generation: u32) -> InterpreterOutcome {
    use craft::*;
    let mut v = peer(3);
    let vid = v.id.clone();
    let data = envelope(
        vec![ExecutedState::Ap(ApResult { res_generations: vec![(generation as usize).into()] })],
        CidInfo::default(), SignatureStore::new());
    run(&mut v, &vid, "(ap 1 $s)", data, HashMap::new())
}

fn s4_call(generation: u32) -> InterpreterOutcome {
    use craft::*;
    let mut v = peer(3);
    let vid = v.id.clone();
    let m = peer(4);
    let (cid_info, agg) = service_result(&m.id, "1");
    let signatures = sign(4, &m.id, &[&agg]);
    let state = ExecutedState::Call(CallResult::Executed(ValueRef::Stream { cid: agg, generation: (generation as usize).into() }));
    let data = envelope(vec![state], cid_info, signatures);
    let air = format!(r#"(call "{}" ("s" "f") [] $s)"#, m.id);
    run(&mut v, &vid, &air, data, HashMap::new())
}

fn rss_kb() -> (u64, u64) {
    let s = std::fs::read_to_string("/proc/self/status").unwrap();
    let get = |k: &str| s.lines().find(|l| l.starts_with(k)).and_then(|l| l.split_whitespace().nth(1)).and_then(|x| x.parse().ok()).unwrap_or(0);
    (get("VmRSS:"), get("VmHWM:"))
}

fn s4(args: &[String]) {
    // `s4 ap <gen>` / `s4 call <gen>`: one measured run (use in a child process under ulimit -v)
    if args.len() >= 2 {
        let g: u32 = args[1].parse().unwrap();
        let id = format!("S4/{}/gen={}", args[0], g);
        let t = std::time::Instant::now();
        let is_ap = args[0] == "ap";
        report(&id, || if is_ap { s4_ap(g) } else { s4_call(g) });
        let (rss, hwm) = rss_kb();
        println!("  {id}: elapsed={:?} VmRSS={} kB VmHWM(peak)={} kB", t.elapsed(), rss, hwm);
        return;
    }
    report("S4/ap/gen=0 (control)", || s4_ap(0));
    report("S4/call/gen=0 (control)", || s4_call(0));
    report("S4/ap/gen=u32::MAX", || s4_ap(u32::MAX));
    report("S4/call/gen=u32::MAX", || s4_call(u32::MAX));
}

    pub fn main_g1(which: &[String]) { if which.iter().any(|w| w=="s1") { s1(); } if which.iter().any(|w| w=="s2") { s2(); } if which.first().map(|w| w=="s4").unwrap_or(false) { s4(&which[1..]); } }
}

// ---- triage group 2 (trace arithmetic suspects S3, S3x, S8, S9, S10, S26) ----
mod g2 {
    use super::*;
use air_interpreter_data::{ApResult, ExecutedState, ExecutionTrace, FoldResult, FoldSubTraceLore, GenerationIdx, ParResult, SubTraceDesc, TracePos, CidInfo, InterpreterDataEnvelope};
use air_interpreter_signatures::SignatureStore;

pub fn craft(states: Vec<ExecutedState>) -> Vec<u8> {
    InterpreterDataEnvelope::from_execution_result(ExecutionTrace::from(states), CidInfo::default(), SignatureStore::new(), 0,
        semver::Version::parse("0.64.1").unwrap()).serialize().unwrap()
}
pub fn ap(gens: &[u32]) -> ExecutedState { ExecutedState::Ap(ApResult { res_generations: gens.iter().map(|g| GenerationIdx::from(*g as usize)).collect() }) }
pub fn par(l: u32, r: u32) -> ExecutedState { ExecutedState::Par(ParResult { left_size: l, right_size: r }) }
pub fn desc(pos: u32, len: u32) -> SubTraceDesc { SubTraceDesc { begin_pos: TracePos::from(pos), subtrace_len: len } }
pub fn lore(value_pos: u32, descs: Vec<SubTraceDesc>) -> FoldSubTraceLore { FoldSubTraceLore { value_pos: TracePos::from(value_pos), subtraces_desc: descs } }
pub fn fold(l: Vec<FoldSubTraceLore>) -> ExecutedState { ExecutedState::Fold(FoldResult { lore: l }) }

/// Victim (seed 7) runs `air` with empty prev_data and the crafted trace as current data.
pub fn attempt(id: &str, air: &str, states: Vec<ExecutedState>) {
    let data = if states.is_empty() { vec![] } else { craft(states) };
    let air = air.to_string();
    let r = std::panic::catch_unwind(std::panic::AssertUnwindSafe(|| {
        let mut v = peer(7);
        let init = v.id.clone();
        let air = air.replace("PEER", &init);
        run(&mut v, &init, &air, data, HashMap::new())
    }));
    match r {
        Err(e) => {
            let msg = e.downcast_ref::<String>().cloned().or_else(|| e.downcast_ref::<&str>().map(|s| s.to_string())).unwrap_or_default();
            println!("REPRODUCED {id}: {msg}");
        }
        Ok(o) => println!("NOT REPRODUCED {id}: ret_code={} msg={}", o.ret_code, o.error_message.chars().take(200).collect::<String>()),
    }
}

const FOLD_AFTER_AP: &str = r#"(seq (ap 1 $s) (fold $s i (seq (null) (next i))))"#;
const FOLD_ONLY_NEW: &str = r#"(new $s (fold $s i (seq (null) (next i))))"#;

fn s3() {
    // fold lore: before-subtrace begins at u32::MAX with len 1 -> `position + subtrace_len` in set_position_and_len
    attempt("S3 fold begin_pos=u32::MAX len=1", FOLD_AFTER_AP,
        vec![ap(&[0]), fold(vec![lore(0, vec![desc(u32::MAX, 1), desc(3, 0)])]), ap(&[0])]);
    // same on the after-subtrace
    attempt("S3 fold after begin_pos=u32::MAX len=1", FOLD_AFTER_AP,
        vec![ap(&[0]), fold(vec![lore(0, vec![desc(2, 0), desc(u32::MAX, 1)])]), ap(&[0])]);
    // par with huge sizes
    for (l, r) in [(u32::MAX, 1), (u32::MAX, 0), (u32::MAX - 1, 0), (0, u32::MAX), (0x8000_0000, 0x7fff_ffff), (2, 0), (0, 2)] {
        attempt(&format!("S3 par({l},{r})"), "(par (null) (null))", vec![par(l, r)]);
        attempt(&format!("S3 par({l},{r}) + 1 trailing state"), "(par (null) (null))", vec![par(l, r), ap(&[0])]);
    }
    // EXTRA: zero-length window at an out-of-trace position, then a par inside the iteration -> set_subtrace_len: trace_len - position
    attempt("S3x fold begin_pos=100 len=0 then par (set_subtrace_len underflow)",
        r#"(seq (ap 1 $s) (fold $s i (seq (par (null) (null)) (next i))))"#,
        vec![ap(&[0]), fold(vec![lore(0, vec![desc(100, 0), desc(100, 0)])])]);
    // EXTRA variant: 2nd iteration has no lore -> apply_fold_lore(None) -> set_subtrace_len(0) with position left at 100
    attempt("S3x fold begin_pos=100 len=0, second value without lore",
        r#"(seq (seq (ap 1 $s) (ap 2 $s)) (fold $s i (seq (null) (next i))))"#,
        vec![ap(&[0]), ap(&[0]), fold(vec![lore(0, vec![desc(100, 0), desc(100, 0)])])]);
}

fn s10() {
    attempt("S10 two lore entries after_len=3e9 each", r#"(seq (seq (ap 1 $s) (ap 2 $s)) (fold $s i (seq (null) (next i))))"#,
        vec![ap(&[0]), ap(&[0]), fold(vec![lore(0, vec![desc(3, 0), desc(3, 3_000_000_000)]), lore(1, vec![desc(3, 0), desc(3, 3_000_000_000)])])]);
    attempt("S10 before_len=3e9 twice", r#"(seq (seq (ap 1 $s) (ap 2 $s)) (fold $s i (seq (null) (next i))))"#,
        vec![ap(&[0]), ap(&[0]), fold(vec![lore(0, vec![desc(3, 3_000_000_000), desc(3, 0)]), lore(1, vec![desc(3, 3_000_000_000), desc(3, 0)])])]);
    attempt("S10 one lore before=u32::MAX after=u32::MAX", FOLD_AFTER_AP,
        vec![ap(&[0]), fold(vec![lore(0, vec![desc(2, u32::MAX), desc(2, u32::MAX)])])]);
    attempt("S10 subtraces_desc empty", FOLD_AFTER_AP, vec![ap(&[0]), fold(vec![lore(0, vec![])])]);
    attempt("S10 subtraces_desc 1 entry", FOLD_AFTER_AP, vec![ap(&[0]), fold(vec![lore(0, vec![desc(2, 0)])])]);
    attempt("S10 subtraces_desc 3 entries", FOLD_AFTER_AP, vec![ap(&[0]), fold(vec![lore(0, vec![desc(2, 0), desc(2, 0), desc(2, 0)])])]);
    attempt("S10 second lore malformed", r#"(seq (seq (ap 1 $s) (ap 2 $s)) (fold $s i (seq (null) (next i))))"#,
        vec![ap(&[0]), ap(&[0]), fold(vec![lore(0, vec![desc(3, 0), desc(3, 0)]), lore(1, vec![])])]);
    attempt("S10 empty lore", FOLD_AFTER_AP, vec![ap(&[0]), fold(vec![])]);
    attempt("S10 different generations", r#"(seq (seq (ap 1 $s) (ap 2 $s)) (fold $s i (seq (null) (next i))))"#,
        vec![ap(&[0]), ap(&[1]), fold(vec![lore(0, vec![desc(3, 0), desc(3, 0)]), lore(1, vec![desc(3, 0), desc(3, 0)])])]);
}

fn s9() {
    // value_pos points at an Ap state with empty res_generations that was never merged by an `ap` instruction
    attempt("S9 fold value_pos -> Ap{res_generations: []}", FOLD_AFTER_AP,
        vec![ap(&[0]), fold(vec![lore(2, vec![desc(2, 0), desc(2, 0)])]), ap(&[])]);
    attempt("S9 (new $s ..) variant", FOLD_ONLY_NEW,
        vec![fold(vec![lore(1, vec![desc(1, 0), desc(1, 0)])]), ap(&[])]);
    // control: the same Ap met by an ap instruction is rejected by to_maybe_generation!
    attempt("S9 control: ap instruction meets Ap{[]}", FOLD_AFTER_AP, vec![ap(&[]), fold(vec![])]);
    attempt("S9 control: ap instruction meets Ap{[0,1]}", FOLD_AFTER_AP, vec![ap(&[0, 1]), fold(vec![])]);
}

fn s8() {
    // value_pos points at a Fold state whose sublore has no descriptors -> KeeperError::NoStreamState{state} -> Display
    attempt("S8 NoStreamState with malformed Fold (other state)", FOLD_AFTER_AP,
        vec![ap(&[0]), fold(vec![lore(2, vec![desc(2, 0), desc(2, 0)])]), fold(vec![lore(0, vec![])])]);
    // self-referential: first sublore well-formed and points at the fold itself, second sublore malformed
    attempt("S8 NoStreamState with malformed Fold (self)", FOLD_AFTER_AP,
        vec![ap(&[0]), fold(vec![lore(1, vec![desc(2, 0), desc(2, 0)]), lore(0, vec![])])]);
    attempt("S8 control: NoStreamState with well-formed Fold", FOLD_AFTER_AP,
        vec![ap(&[0]), fold(vec![lore(1, vec![desc(2, 0), desc(2, 0)])])]);
    // controls: incompatible-state errors use {:?}
    attempt("S8 control: call meets malformed Fold", r#"(call "x" ("a" "b") [])"#, vec![fold(vec![lore(0, vec![])])]);
    attempt("S8 control: par meets malformed Fold", "(par (null) (null))", vec![fold(vec![lore(0, vec![])])]);
    attempt("S8 control: ap meets malformed Fold", "(ap 1 $s)", vec![fold(vec![lore(0, vec![])])]);
}

fn s26() {
    // script only, no data: one syntactic `next i`, executed twice per iteration through an inner fold
    attempt("S26 next of outer iterator inside inner stream fold",
        r#"(seq (seq (seq (ap 1 $s) (ap 2 $s)) (seq (ap 1 $t) (ap 2 $t))) (fold $s i (fold $t j (seq (next i) (next j)))))"#, vec![]);
    attempt("S26 next of outer iterator inside inner scalar fold (seq)",
        r#"(seq (seq (seq (ap 1 $s) (ap 2 $s)) (seq (seq (ap 1 $t) (ap 2 $t)) (canon "PEER" $t #c))) (fold $s i (fold #c j (seq (next j) (next i)))))"#, vec![]);
    attempt("S26 next of outer iterator inside inner scalar fold (par)",
        r#"(seq (seq (seq (ap 1 $s) (ap 2 $s)) (seq (seq (ap 1 $t) (ap 2 $t)) (canon "PEER" $t #c))) (fold $s i (fold #c j (par (next j) (next i)))))"#, vec![]);
    attempt("S26 next in body and in last instruction", r#"(seq (seq (ap 1 $s) (ap 2 $s)) (fold $s i (seq (null) (next i)) (next i)))"#, vec![]);
    attempt("S26 next in both xor branches", r#"(seq (seq (ap 1 $s) (ap 2 $s)) (fold $s i (xor (next i) (next i))))"#, vec![]);
    attempt("S26 xor(par(fail, next), null) twice nested", r#"(seq (seq (ap 1 $s) (ap 2 $s)) (fold $s i (par (xor (fail 1 "x") (null)) (xor (next i) (null)))))"#, vec![]);
    // errors inside iterations / xor around par
    attempt("S26 fail after next in xor", r#"(seq (seq (ap 1 $s) (ap 2 $s)) (fold $s i (xor (seq (next i) (fail 1 "x")) (null))))"#, vec![]);
    attempt("S26 par next with failing left", r#"(seq (seq (ap 1 $s) (ap 2 $s)) (fold $s i (xor (par (fail 1 "x") (next i)) (null))))"#, vec![]);
    attempt("S26 next in last instruction position", r#"(seq (seq (ap 1 $s) (ap 2 $s)) (fold $s i (seq (null) (next i)) (null)))"#, vec![]);
}

    pub fn main_g2(which: &[String]) { for w in which { match w.as_str() { "s3" => s3(), "s10" => s10(), "s9" => s9(), "s8" => s8(), "s26" => s26(), _ => {} } } }
}

// ---- deep nesting (C01 recursion findings): run each in its own process, a stack overflow aborts ----
fn nested(n: usize) -> String {
    let mut s = String::with_capacity(n * 12);
    for _ in 0..n { s.push_str("(seq (null) "); }
    s.push_str("(null)");
    for _ in 0..n { s.push(')'); }
    s
}
fn deep(args: &[String]) {
    let what = args.get(0).map(|s| s.as_str()).unwrap_or("parse");
    let n: usize = args.get(1).and_then(|s| s.parse().ok()).unwrap_or(200_000);
    let script = nested(n);
    match what {
        "parse" => { let r = air_parser::parse(&script); println!("deep parse n={n}: ok={}", r.is_ok()); }
        "execute" => { let mut v = peer(9); let id = v.id.clone(); let o = run(&mut v, &id, &script, vec![], HashMap::new()); println!("deep execute n={n}: ret={}", o.ret_code); }
        "beautify" => { let r = air_beautifier::beautify_to_string(&script); println!("deep beautify n={n}: ok={}", r.is_ok()); }
        _ => {}
    }
}

// ---- C23 validator coverage gaps: scripts with undefined variables that the parser accepts ----
fn c23() {
    let cases = [
        ("control (must be rejected)", r#"(ap undefined $s)"#),
        ("control (must be rejected)", r#"(call "p" ("s" "f") [undefined])"#),
        ("field:ApMap.value", r#"(ap ("k" undefined) %map)"#),
        ("field:Canon.peer_id", r#"(canon undefined_peer $s #canon)"#),
        ("field:CanonMap.peer_id", r#"(canon undefined_peer %m #%canon)"#),
        ("field:CanonStreamMapScalar.peer_id", r#"(canon undefined_peer %m scalar)"#),
        ("payload:Fail::Scalar", r#"(fail undefined)"#),
        ("payload:Fail::ScalarWithLambda", r#"(fail undefined.$.a)"#),
        ("payload:Fail::CanonStreamWithLambda", r#"(fail #undef.$.[0])"#),
        ("payload:ApArgument::Error", r#"(ap :error:.$.[idx] x)"#),
        ("payload:ApArgument::LastError", r#"(ap %last_error%.$.[idx] x)"#),
        ("payload:ImmutableValue::Error", r#"(call "p" ("s" "f") [:error:.$.[idx]])"#),
        ("payload:ImmutableValue::LastError", r#"(call "p" ("s" "f") [%last_error%.$.[idx]])"#),
    ];
    for (id, script) in cases {
        let r = air_parser::parse(script);
        println!("C23 {id}: {script} -> {}", if r.is_ok() { "ACCEPTED".to_string() } else { format!("rejected") });
    }
}

fn main() {
    let which: Vec<String> = std::env::args().skip(1).collect();
    if which.iter().any(|w| w == "c23") { c23(); }
    if which.first().map(|w| w == "deep").unwrap_or(false) { deep(&which[1..]); return; }
    if which.is_empty() || which.iter().any(|w| w == "c03") { c03(); }
    g1::main_g1(&which);
    g2::main_g2(&which);
}
