use air_interpreter_interface::*;
use air_interpreter_sede::ToSerialized;
use std::collections::HashMap;

pub struct Peer { pub id: String, pub secret: Vec<u8>, pub prev: Vec<u8> }

pub fn peer(seed: u8) -> Peer {
    let kp = fluence_keypair::KeyPair::from_secret_key(vec![seed; 32], fluence_keypair::KeyFormat::Ed25519).unwrap();
    let id = kp.public().to_peer_id().to_string();
    Peer { id, secret: vec![seed; 32], prev: vec![] }
}

pub fn run(p: &mut Peer, init: &str, air: &str, data: Vec<u8>, results: HashMap<String, CallServiceResult>) -> InterpreterOutcome {
    let params = RunParameters::new(init.to_string(), p.id.clone(), 1, 1, fluence_keypair::KeyFormat::Ed25519.into(), p.secret.clone(),
        "particle".to_string(), u64::MAX, u64::MAX, u64::MAX, false);
    let cr = CallResultsRepr.serialize(&results).unwrap();
    let out = air::execute_air(air.to_string(), p.prev.clone(), data, params, cr);
    if out.ret_code == 0 || (10000..20000).contains(&out.ret_code) { p.prev = out.data.clone(); }
    out
}

fn c03() {
    let mut a = peer(1);
    let mut b = peer(2);
    let air = format!(r#"(seq (xor (call "{a}" ("s" "f") [] x) (null)) (call "{b}" ("s" "g") []))"#, a = a.id, b = b.id);
    for (label, result) in [("control: valid JSON result", "42"), ("non-JSON result with ret_code 0", "not json")] {
        a.prev.clear(); b.prev.clear();
        let aid = a.id.clone(); let o1 = run(&mut a, &aid, &air, vec![], HashMap::new());
        assert_eq!(o1.ret_code, 0);
        let mut res = HashMap::new();
        res.insert("1".to_string(), CallServiceResult { ret_code: 0, result: result.to_string() });
        let o2 = run(&mut a, &aid, &air, vec![], res);
        let o3 = run(&mut b, &aid, &air, o2.data.clone(), HashMap::new());
        println!("C03 {label}: A ret={} next={:?}; B ret={} msg={}", o2.ret_code, o2.next_peer_pks, o3.ret_code, &o3.error_message.chars().take(120).collect::<String>());
    }
}


// ---- triage group 1 (CID/store suspects S1, S2, S4) ----
mod g1 {
    use super::*;
// ---------------------------------------------------------------------------------------------
// crafted-data helpers
mod craft {
    pub use air_interpreter_cid::{value_to_json_cid, CID};
    pub use air_interpreter_data::*;
    pub use air_interpreter_signatures::{KeyFormat, KeyPair, PeerCidTracker, SignatureStore};
    pub use polyplets::SecurityTetraplet;
    use std::rc::Rc;

    pub fn envelope(trace: Vec<ExecutedState>, cid_info: CidInfo, signatures: SignatureStore) -> Vec<u8> {
        InterpreterDataEnvelope::from_execution_result(
            ExecutionTrace::from(trace), cid_info, signatures, 0, semver::Version::parse("0.64.1").unwrap(),
        ).serialize().unwrap()
    }

    /// keypair of the malicious peer created by `peer(seed)`
    pub fn keypair(seed: u8) -> KeyPair { KeyPair::from_secret_key(vec![seed; 32], KeyFormat::Ed25519).unwrap() }

    /// M signs the given CIDs (salt = particle id used by `run`)
    pub fn sign<T>(seed: u8, peer_id: &str, cids: &[&CID<T>]) -> SignatureStore {
        let kp = keypair(seed);
        let mut tracker = PeerCidTracker::new(peer_id.to_string());
        for cid in cids { tracker.register(peer_id, cid); }
        let mut store = SignatureStore::new();
        store.put(kp.public(), tracker.gen_signature("particle", &kp).unwrap());
        store
    }

    /// RawValue has no constructor from a raw string, but it is #[serde(transparent)] over the raw string.
    pub fn raw_value(raw: &str) -> RawValue { serde_json::from_value(serde_json::Value::String(raw.to_string())).unwrap() }

    /// A consistent CidInfo holding one service result of `(call peer_id ("s" "f") [])` whose raw value is `raw`.
    pub fn service_result(peer_id: &str, raw: &str) -> (CidInfo, CID<ServiceResultCidAggregate>) {
        let mut values = CidTracker::<RawValue>::new();
        let value_cid = values.track_raw_value(raw_value(raw));
        let mut tetraplets = CidTracker::<SecurityTetraplet>::new();
        let tetraplet_cid = tetraplets.track_value(SecurityTetraplet::new(peer_id, "s", "f", "")).unwrap();
        let argument_hash: Rc<str> = value_to_json_cid(&Vec::<serde_json::Value>::new()).unwrap().get_inner();
        let mut results = CidTracker::<ServiceResultCidAggregate>::new();
        let agg_cid = results.track_value(ServiceResultCidAggregate { value_cid, argument_hash, tetraplet_cid }).unwrap();
        let cid_info = CidInfo {
            value_store: values.into(), tetraplet_store: tetraplets.into(), service_result_store: results.into(),
            ..Default::default()
        };
        (cid_info, agg_cid)
    }
}

fn report(id: &str, f: impl FnOnce() -> InterpreterOutcome) {
    let r = std::panic::catch_unwind(std::panic::AssertUnwindSafe(f));
    match r {
        Ok(o) => println!("NOT REPRODUCED {id}: ret_code={} msg={}", o.ret_code, o.error_message.chars().take(200).collect::<String>()),
        Err(e) => {
            let msg = e.downcast_ref::<String>().cloned().or_else(|| e.downcast_ref::<&str>().map(|s| s.to_string())).unwrap_or_default();
            println!("REPRODUCED {id}: {msg}")
        }
    }
}

/// S1: a CID mentioned in the trace that is absent from the (internally consistent, here empty) CID stores.
fn s1() {
    use craft::*;
    let dangling = "bagaaihrarcyykpv4oj7zwdbepczyfthxya4og7s2rwvrzolm5kg2eu5dz3xa";
    let variants: Vec<(&str, ExecutedState)> = vec![
        ("S1/call-executed-scalar", ExecutedState::Call(CallResult::Executed(ValueRef::Scalar(CID::new(dangling))))),
        ("S1/call-executed-stream", ExecutedState::Call(CallResult::Executed(ValueRef::Stream { cid: CID::new(dangling), generation: 0usize.into() }))),
        ("S1/call-failed", ExecutedState::Call(CallResult::Failed(CID::new(dangling)))),
        ("S1/canon-executed", ExecutedState::Canon(CanonResult::Executed(CID::new(dangling)))),
    ];
    for (id, state) in variants {
        report(id, || {
            let mut v = peer(3);
            let vid = v.id.clone();
            let data = envelope(vec![state], CidInfo::default(), SignatureStore::new());
            run(&mut v, &vid, "(null)", data, HashMap::new())
        });
    }
    // service result present, its tetraplet reference is checked by CidInfo::verify -> second expect is guarded
    report("S1/missing-tetraplet (expected to be rejected by CidInfo::verify)", || {
        let mut v = peer(3);
        let vid = v.id.clone();
        let m = peer(4);
        let (mut cid_info, agg) = service_result(&m.id, "1");
        cid_info.tetraplet_store = CidStore::new();
        let data = envelope(vec![ExecutedState::Call(CallResult::Executed(ValueRef::Scalar(agg)))], cid_info, SignatureStore::new());
        run(&mut v, &vid, "(null)", data, HashMap::new())
    });
}

/// S2: value store entry that is not JSON, stored under its correct (raw-bytes) CID and signed by M.
fn s2() {
    use craft::*;
    for (id, raw, failed) in [("S2/control-valid-json", "42", false), ("S2/not-json", "not json", false), ("S2/not-json-in-Failed", "not json", true)] {
        report(id, || {
            let mut v = peer(3);
            let vid = v.id.clone();
            let m = peer(4);
            let (cid_info, agg) = service_result(&m.id, raw);
            let signatures = sign(4, &m.id, &[&agg]);
            let call = if failed { CallResult::Failed(agg) } else { CallResult::Executed(ValueRef::Scalar(agg)) };
            let data = envelope(vec![ExecutedState::Call(call)], cid_info, signatures);
            let air = format!(r#"(call "{}" ("s" "f") [] x)"#, m.id);
            run(&mut v, &vid, &air, data, HashMap::new())
        });
    }
}

/// S4: generation index taken from the data drives `Vec::resize`.
fn s4_ap(generation: u32) -> InterpreterOutcome {
    use craft::*;
    let mut v = peer(3);
    let vid = v.id.clone();
    let data = envelope(
        vec![ExecutedState::Ap(ApResult { res_generations: vec![(generation as usize).into()] })],
        CidInfo::default(), SignatureStore::new());
    run(&mut v, &vid, "(ap 1 $s)", data, HashMap::new())
}

fn s4_call(generation: u32) -> InterpreterOutcome {
    use craft::*;
    let mut v = peer(3);
    let vid = v.id.clone();
    let m = peer(4);
    let (cid_info, agg) = service_result(&m.id, "1");
    let signatures = sign(4, &m.id, &[&agg]);
    let state = ExecutedState::Call(CallResult::Executed(ValueRef::Stream { cid: agg, generation: (generation as usize).into() }));
    let data = envelope(vec![state], cid_info, signatures);
    let air = format!(r#"(call "{}" ("s" "f") [] $s)"#, m.id);
    run(&mut v, &vid, &air, data, HashMap::new())
}

fn rss_kb() -> (u64, u64) {
    let s = std::fs::read_to_string("/proc/self/status").unwrap();
    let get = |k: &str| s.lines().find(|l| l.starts_with(k)).and_then(|l| l.split_whitespace().nth(1)).and_then(|x| x.parse().ok()).unwrap_or(0);
    (get("VmRSS:"), get("VmHWM:"))
}

fn s4(args: &[String]) {
    // `s4 ap <gen>` / `s4 call <gen>`: one measured run (use in a child process under ulimit -v)
    if args.len() >= 2 {
        let g: u32 = args[1].parse().unwrap();
        let id = format!("S4/{}/gen={}", args[0], g);
        let t = std::time::Instant::now();
        let is_ap = args[0] == "ap";
        report(&id, || if is_ap { s4_ap(g) } else { s4_call(g) });
        let (rss, hwm) = rss_kb();
        println!("  {id}: elapsed={:?} VmRSS={} kB VmHWM(peak)={} kB", t.elapsed(), rss, hwm);
        return;
    }
    report("S4/ap/gen=0 (control)", || s4_ap(0));
    report("S4/call/gen=0 (control)", || s4_call(0));
    report("S4/ap/gen=u32::MAX", || s4_ap(u32::MAX));
    report("S4/call/gen=u32::MAX", || s4_call(u32::MAX));
}

    pub fn main_g1(which: &[String]) { if which.iter().any(|w| w=="s1") { s1(); } if which.iter().any(|w| w=="s2") { s2(); } if which.first().map(|w| w=="s4").unwrap_or(false) { s4(&which[1..]); } }
}

// ---- triage group 2 (trace arithmetic suspects S3, S3x, S8, S9, S10, S26) ----
mod g2 {
    use super::*;
use air_interpreter_data::{ApResult, ExecutedState, ExecutionTrace, FoldResult, FoldSubTraceLore, GenerationIdx, ParResult, SubTraceDesc, TracePos, CidInfo, InterpreterDataEnvelope};
use air_interpreter_signatures::SignatureStore;

pub fn craft(states: Vec<ExecutedState>) -> Vec<u8> {
    InterpreterDataEnvelope::from_execution_result(ExecutionTrace::from(states), CidInfo::default(), SignatureStore::new(), 0,
        semver::Version::parse("0.64.1").unwrap()).serialize().unwrap()
}
pub fn ap(gens: &[u32]) -> ExecutedState { ExecutedState::Ap(ApResult { res_generations: gens.iter().map(|g| GenerationIdx::from(*g as usize)).collect() }) }
pub fn par(l: u32, r: u32) -> ExecutedState { ExecutedState::Par(ParResult { left_size: l, right_size: r }) }
pub fn desc(pos: u32, len: u32) -> SubTraceDesc { SubTraceDesc { begin_pos: TracePos::from(pos), subtrace_len: len } }
pub fn lore(value_pos: u32, descs: Vec<SubTraceDesc>) -> FoldSubTraceLore { FoldSubTraceLore { value_pos: TracePos::from(value_pos), subtraces_desc: descs } }
pub fn fold(l: Vec<FoldSubTraceLore>) -> ExecutedState { ExecutedState::Fold(FoldResult { lore: l }) }

/// Victim (seed 7) runs `air` with empty prev_data and the crafted trace as current data.
pub fn attempt(id: &str, air: &str, states: Vec<ExecutedState>) {
    let data = if states.is_empty() { vec![] } else { craft(states) };
    let air = air.to_string();
    let r = std::panic::catch_unwind(std::panic::AssertUnwindSafe(|| {
        let mut v = peer(7);
        let init = v.id.clone();
        let air = air.replace("PEER", &init);
        run(&mut v, &init, &air, data, HashMap::new())
    }));
    match r {
        Err(e) => {
            let msg = e.downcast_ref::<String>().cloned().or_else(|| e.downcast_ref::<&str>().map(|s| s.to_string())).unwrap_or_default();
            println!("REPRODUCED {id}: {msg}");
        }
        Ok(o) => println!("NOT REPRODUCED {id}: ret_code={} msg={}", o.ret_code, o.error_message.chars().take(200).collect::<String>()),
    }
}

const FOLD_AFTER_AP: &str = r#"(seq (ap 1 $s) (fold $s i (seq (null) (next i))))"#;
const FOLD_ONLY_NEW: &str = r#"(new $s (fold $s i (seq (null) (next i))))"#;

fn s3() {
    // fold lore: before-subtrace begins at u32::MAX with len 1 -> `position + subtrace_len` in set_position_and_len
    attempt("S3 fold begin_pos=u32::MAX len=1", FOLD_AFTER_AP,
        vec![ap(&[0]), fold(vec![lore(0, vec![desc(u32::MAX, 1), desc(3, 0)])]), ap(&[0])]);
    // same on the after-subtrace
    attempt("S3 fold after begin_pos=u32::MAX len=1", FOLD_AFTER_AP,
        vec![ap(&[0]), fold(vec![lore(0, vec![desc(2, 0), desc(u32::MAX, 1)])]), ap(&[0])]);
    // par with huge sizes
    for (l, r) in [(u32::MAX, 1), (u32::MAX, 0), (u32::MAX - 1, 0), (0, u32::MAX), (0x8000_0000, 0x7fff_ffff), (2, 0), (0, 2)] {
        attempt(&format!("S3 par({l},{r})"), "(par (null) (null))", vec![par(l, r)]);
        attempt(&format!("S3 par({l},{r}) + 1 trailing state"), "(par (null) (null))", vec![par(l, r), ap(&[0])]);
    }
    // EXTRA: zero-length window at an out-of-trace position, then a par inside the iteration -> set_subtrace_len: trace_len - position
    attempt("S3x fold begin_pos=100 len=0 then par (set_subtrace_len underflow)",
        r#"(seq (ap 1 $s) (fold $s i (seq (par (null) (null)) (next i))))"#,
        vec![ap(&[0]), fold(vec![lore(0, vec![desc(100, 0), desc(100, 0)])])]);
    // EXTRA variant: 2nd iteration has no lore -> apply_fold_lore(None) -> set_subtrace_len(0) with position left at 100
    attempt("S3x fold begin_pos=100 len=0, second value without lore",
        r#"(seq (seq (ap 1 $s) (ap 2 $s)) (fold $s i (seq (null) (next i))))"#,
        vec![ap(&[0]), ap(&[0]), fold(vec![lore(0, vec![desc(100, 0), desc(100, 0)])])]);
}

fn s10() {
    attempt("S10 two lore entries after_len=3e9 each", r#"(seq (seq (ap 1 $s) (ap 2 $s)) (fold $s i (seq (null) (next i))))"#,
        vec![ap(&[0]), ap(&[0]), fold(vec![lore(0, vec![desc(3, 0), desc(3, 3_000_000_000)]), lore(1, vec![desc(3, 0), desc(3, 3_000_000_000)])])]);
    attempt("S10 before_len=3e9 twice", r#"(seq (seq (ap 1 $s) (ap 2 $s)) (fold $s i (seq (null) (next i))))"#,
        vec![ap(&[0]), ap(&[0]), fold(vec![lore(0, vec![desc(3, 3_000_000_000), desc(3, 0)]), lore(1, vec![desc(3, 3_000_000_000), desc(3, 0)])])]);
    attempt("S10 one lore before=u32::MAX after=u32::MAX", FOLD_AFTER_AP,
        vec![ap(&[0]), fold(vec![lore(0, vec![desc(2, u32::MAX), desc(2, u32::MAX)])])]);
    attempt("S10 subtraces_desc empty", FOLD_AFTER_AP, vec![ap(&[0]), fold(vec![lore(0, vec![])])]);
    attempt("S10 subtraces_desc 1 entry", FOLD_AFTER_AP, vec![ap(&[0]), fold(vec![lore(0, vec![desc(2, 0)])])]);
    attempt("S10 subtraces_desc 3 entries", FOLD_AFTER_AP, vec![ap(&[0]), fold(vec![lore(0, vec![desc(2, 0), desc(2, 0), desc(2, 0)])])]);
    attempt("S10 second lore malformed", r#"(seq (seq (ap 1 $s) (ap 2 $s)) (fold $s i (seq (null) (next i))))"#,
        vec![ap(&[0]), ap(&[0]), fold(vec![lore(0, vec![desc(3, 0), desc(3, 0)]), lore(1, vec![])])]);
    attempt("S10 empty lore", FOLD_AFTER_AP, vec![ap(&[0]), fold(vec![])]);
    attempt("S10 different generations", r#"(seq (seq (ap 1 $s) (ap 2 $s)) (fold $s i (seq (null) (next i))))"#,
        vec![ap(&[0]), ap(&[1]), fold(vec![lore(0, vec![desc(3, 0), desc(3, 0)]), lore(1, vec![desc(3, 0), desc(3, 0)])])]);
}

fn s9() {
    // value_pos points at an Ap state with empty res_generations that was never merged by an `ap` instruction
    attempt("S9 fold value_pos -> Ap{res_generations: []}", FOLD_AFTER_AP,
        vec![ap(&[0]), fold(vec![lore(2, vec![desc(2, 0), desc(2, 0)])]), ap(&[])]);
    attempt("S9 (new $s ..) variant", FOLD_ONLY_NEW,
        vec![fold(vec![lore(1, vec![desc(1, 0), desc(1, 0)])]), ap(&[])]);
    // control: the same Ap met by an ap instruction is rejected by to_maybe_generation!
    attempt("S9 control: ap instruction meets Ap{[]}", FOLD_AFTER_AP, vec![ap(&[]), fold(vec![])]);
    attempt("S9 control: ap instruction meets Ap{[0,1]}", FOLD_AFTER_AP, vec![ap(&[0, 1]), fold(vec![])]);
}

fn s8() {
    // value_pos points at a Fold state whose sublore has no descriptors -> KeeperError::NoStreamState{state} -> Display
    attempt("S8 NoStreamState with malformed Fold (other state)", FOLD_AFTER_AP,
        vec![ap(&[0]), fold(vec![lore(2, vec![desc(2, 0), desc(2, 0)])]), fold(vec![lore(0, vec![])])]);
    // self-referential: first sublore well-formed and points at the fold itself, second sublore malformed
    attempt("S8 NoStreamState with malformed Fold (self)", FOLD_AFTER_AP,
        vec![ap(&[0]), fold(vec![lore(1, vec![desc(2, 0), desc(2, 0)]), lore(0, vec![])])]);
    attempt("S8 control: NoStreamState with well-formed Fold", FOLD_AFTER_AP,
        vec![ap(&[0]), fold(vec![lore(1, vec![desc(2, 0), desc(2, 0)])])]);
    // controls: incompatible-state errors use {:?}
    attempt("S8 control: call meets malformed Fold", r#"(call "x" ("a" "b") [])"#, vec![fold(vec![lore(0, vec![])])]);
    attempt("S8 control: par meets malformed Fold", "(par (null) (null))", vec![fold(vec![lore(0, vec![])])]);
    attempt("S8 control: ap meets malformed Fold", "(ap 1 $s)", vec![fold(vec![lore(0, vec![])])]);
}

fn s26() {
    // script only, no data: one syntactic `next i`, executed twice per iteration through an inner fold
    attempt("S26 next of outer iterator inside inner stream fold",
        r#"(seq (seq (seq (ap 1 $s) (ap 2 $s)) (seq (ap 1 $t) (ap 2 $t))) (fold $s i (fold $t j (seq (next i) (next j)))))"#, vec![]);
    attempt("S26 next of outer iterator inside inner scalar fold (seq)",
        r#"(seq (seq (seq (ap 1 $s) (ap 2 $s)) (seq (seq (ap 1 $t) (ap 2 $t)) (canon "PEER" $t #c))) (fold $s i (fold #c j (seq (next j) (next i)))))"#, vec![]);
    attempt("S26 next of outer iterator inside inner scalar fold (par)",
        r#"(seq (seq (seq (ap 1 $s) (ap 2 $s)) (seq (seq (ap 1 $t) (ap 2 $t)) (canon "PEER" $t #c))) (fold $s i (fold #c j (par (next j) (next i)))))"#, vec![]);
    attempt("S26 next in body and in last instruction", r#"(seq (seq (ap 1 $s) (ap 2 $s)) (fold $s i (seq (null) (next i)) (next i)))"#, vec![]);
    attempt("S26 next in both xor branches", r#"(seq (seq (ap 1 $s) (ap 2 $s)) (fold $s i (xor (next i) (next i))))"#, vec![]);
    attempt("S26 xor(par(fail, next), null) twice nested", r#"(seq (seq (ap 1 $s) (ap 2 $s)) (fold $s i (par (xor (fail 1 "x") (null)) (xor (next i) (null)))))"#, vec![]);
    // errors inside iterations / xor around par
    attempt("S26 fail after next in xor", r#"(seq (seq (ap 1 $s) (ap 2 $s)) (fold $s i (xor (seq (next i) (fail 1 "x")) (null))))"#, vec![]);
    attempt("S26 par next with failing left", r#"(seq (seq (ap 1 $s) (ap 2 $s)) (fold $s i (xor (par (fail 1 "x") (next i)) (null))))"#, vec![]);
    attempt("S26 next in last instruction position", r#"(seq (seq (ap 1 $s) (ap 2 $s)) (fold $s i (seq (null) (next i)) (null)))"#, vec![]);
}

    pub fn main_g2(which: &[String]) { for w in which { match w.as_str() { "s3" => s3(), "s10" => s10(), "s9" => s9(), "s8" => s8(), "s26" => s26(), _ => {} } } }
}


// ---- triage group 3 (script-level suspects S5, S6, S12, S16, S18, S22) ----
mod g3 {
    use super::*;
pub fn res1(ret_code: i32, result: &str) -> HashMap<String, CallServiceResult> {
    let mut res = HashMap::new();
    res.insert("1".to_string(), CallServiceResult { ret_code, result: result.to_string() });
    res
}

pub fn panic_msg(e: Box<dyn std::any::Any + Send>) -> String {
    e.downcast_ref::<String>().cloned().or_else(|| e.downcast_ref::<&str>().map(|s| s.to_string())).unwrap_or_default()
}

/// Runs `f` under catch_unwind and prints REPRODUCED / NOT REPRODUCED. The panic location is printed by the panic hook.
pub fn guard<F: FnOnce() -> InterpreterOutcome>(id: &str, f: F) -> bool {
    match std::panic::catch_unwind(std::panic::AssertUnwindSafe(f)) {
        Ok(o) => { println!("NOT REPRODUCED {id}: ret_code={} msg={}", o.ret_code, o.error_message.chars().take(160).collect::<String>()); false }
        Err(e) => { println!("REPRODUCED {id}: {}", panic_msg(e)); true }
    }
}

pub fn reencode(d: &air_interpreter_data::InterpreterData) -> Vec<u8> {
    air_interpreter_data::InterpreterDataEnvelope::from_execution_result(d.trace.clone(), d.cid_info.clone(), d.signatures.clone(),
        d.last_call_request_id, semver::Version::parse("0.64.1").unwrap()).serialize().unwrap()
}

pub fn decode(data: &[u8]) -> air_interpreter_data::InterpreterData {
    let env = air_interpreter_data::InterpreterDataEnvelope::try_from_slice(data).unwrap();
    air_interpreter_data::InterpreterData::try_from_slice(&env.inner_data).unwrap()
}

// S5: peer B honestly executes `(call B ("s" "g") [] y)` (no arguments) for particle "particle" and hands its data to V.
// V's script has `(call B ("s" "g") [x] y)` at the same trace position, with x still undefined on V
// (joinable VariableNotFound => argument_hash == None) => unwrap on None in handle_prev_state.
fn s5() {
    for (label, ret_code, result) in [("Executed", 0, "42"), ("Failed", 1, "\"boom\"")] {
        let mut b = peer(2);
        let mut v = peer(3);
        let z = peer(4);
        let script_b = format!(r#"(par (call "{z}" ("s" "f") [] x) (call "{b}" ("s" "g") [] y))"#, z = z.id, b = b.id);
        let script_v = format!(r#"(par (call "{z}" ("s" "f") [] x) (call "{b}" ("s" "g") [x] y))"#, z = z.id, b = b.id);
        let bid = b.id.clone();
        let o1 = run(&mut b, &bid, &script_b, vec![], HashMap::new());
        assert_eq!(o1.ret_code, 0, "{}", o1.error_message);
        let o2 = run(&mut b, &bid, &script_b, vec![], res1(ret_code, result));
        println!("S5 {label}: B ret={} msg={} trace={:?}", o2.ret_code, o2.error_message, decode(&b.prev).trace);
        let data = b.prev.clone();
        guard(&format!("S5-{label}"), || run(&mut v, &bid, &script_v, data, HashMap::new()));
    }
    // own RequestSentBy arm: V really requested call id 1 for `(call V ("s" "h") [] w)`; a malicious sender's current data
    // claims that the joinable call `(call V ("s" "g") [x] y)` is RequestSentBy(V, 1); the host then delivers result "1".
    {
        use air_interpreter_data::*;
        let mut v = peer(3);
        let z = peer(4);
        let script = format!(r#"(par (par (call "{z}" ("s" "f") [] x) (call "{v}" ("s" "g") [x] y)) (call "{v}" ("s" "h") [] w))"#, z = z.id, v = v.id);
        let vid = v.id.clone();
        let o1 = run(&mut v, &vid, &script, vec![], HashMap::new());
        let mut d = decode(&v.prev);
        println!("S5 own: V run1 ret={} msg={} reqs={} trace={:?}", o1.ret_code, o1.error_message, o1.call_requests.len(), d.trace);
        let z_sent = ExecutedState::Call(CallResult::sent_peer_id(vid.clone().into()));
        let own = ExecutedState::Call(CallResult::sent_peer_id_with_call_id(vid.clone().into(), 1));
        d.trace = ExecutionTrace::from(vec![ExecutedState::par(3, 0), ExecutedState::par(1, 1), z_sent, own]);
        let cur = reencode(&d);
        guard("S5-own-RequestSentBy", || run(&mut v, &vid, &script, cur, res1(0, "42")));
    }
}

// S18: (fail x) with x.error_code an integer that does not fit i64.
fn s18() {
    for (i, obj) in [
        r#"{"error_code": 18446744073709551615, "message": "m"}"#,
        r#"{"error_code": 9223372036854775808, "message": "m"}"#,
        r#"{"error_code": 9223372036854775807, "message": "m"}"#,
        r#"{"error_code": 1.5, "message": "m"}"#,
        r#"{"error_code": 1e100, "message": "m"}"#,
        r#"{"error_code": -1, "message": "m"}"#,
    ].iter().enumerate() {
        let mut a = peer(1);
        let aid = a.id.clone();
        let script = format!(r#"(seq (call "{a}" ("s" "f") [] x) (xor (fail x) (null)))"#, a = aid);
        let o1 = run(&mut a, &aid, &script, vec![], HashMap::new());
        assert_eq!(o1.ret_code, 0);
        guard(&format!("S18-{i} {obj}"), || run(&mut a, &aid, &script, vec![], res1(0, obj)));
    }
}

// S6: a name that is both a scalar and a fold iterator.
fn s6() {
    let mut a = peer(1);
    let aid = a.id.clone();
    let script = format!(r#"(seq (call "{a}" ("s" "f") [] x) (fold x x (seq (call "{a}" ("s" "g") [x]) (next x))))"#, a = aid);
    let o1 = run(&mut a, &aid, &script, vec![], HashMap::new());
    assert_eq!(o1.ret_code, 0, "{}", o1.error_message);
    guard("S6", || run(&mut a, &aid, &script, vec![], res1(0, "[1,2]")));
}

// S22: single peer A; `body` is executed after `$s` got n (0 or 1) values and was canonicalized into #canon.
fn s22() {
    let bodies = [
        "(ap #canon.$.length x)", "(ap #canon.length x)", "(fail #canon.length)", "(ap #canon x)", "(fail #canon.$.[0])", "(ap #canon.$.[0] x)", "(ap #canon.$.[100] x)",
        "(ap #canon.$.[0].[1] x)", "(ap #canon.$.[0][1] x)", "(ap #canon.$.[0].a x)", "(ap #canon.$.[0].[1].[5] x)",
        "(ap #canon.$.[0].[1].[1] x)", "(ap #canon.$.[0].[2].a x)", "(fail #canon.$.[0].[2])",
        "(ap %last_error%.$.x y)", "(ap :error: y)", "(ap :error:.$.x y)", "(ap %last_error% y)", "(ap %last_error%.$.message y)",
        "(seq (ap #canon x) (fail x))", "(seq (ap #canon.$.[0] x) (fail x))", "(seq (ap #canon.$.[0] x) (fail x.$.[1]))",
        "(fold #canon it (seq (ap it.$.[1] y) (next it)))", "(fold #canon.$.[0] it (seq (ap it y) (next it)))",
        "(fold #canon.$.[1] it (seq (ap it y) (next it)))", "(fold $s it (seq (ap it.$.[7] y) (next it)))",
        "(fold #canon.$.[0].[1] it (seq (ap it y) (next it)))",
        "(seq (ap 1 i) (ap #canon.$.[i] y))", "(seq (ap 0 i) (ap #canon.$.[i] y))", "(seq (ap 7 i) (ap #canon.$.[i] y))",
        "(seq (ap \"a\" i) (ap #canon.$.[i] y))", "(seq (ap #canon.$.[0] i) (ap #canon.$.[i] y))", "(seq (ap -1 i) (ap #canon.$.[i] y))",
        "(seq (ap 4294967296 i) (ap #canon.$.[i] y))", "(seq (ap 1.5 i) (ap #canon.$.[i] y))",
        "(call %init_peer_id% (\"s\" \"g\") [#canon.$.[0] #canon.$.length #canon #canon.$.[3]])",
        "(call %init_peer_id% (\"s\" \"g\") [#canon.$.[0] #canon.$.length #canon])",
        "(seq (xor (fail 1 \"m\") (ap :error:.$.error_code y)) (null))",
        "(xor (fail 1 \"m\") (fail :error:))", "(xor (fail 1 \"m\") (fail %last_error%))",
        "(fail :error:)", "(fail %last_error%)",
        "(xor (ap #canon.$.[9] q) (seq (ap :error: e) (fail e)))",
        "(xor (ap #canon.$.[9] q) (seq (ap %last_error% e) (fail e)))",
        "(xor (ap #canon.$.[9] q) (ap :error:.$.message e))",
        "(seq (ap (\"k\" #canon) %map) (seq (canon %init_peer_id% %map #%cm) (seq (ap #%cm.$.k.[0] y) (ap #%cm.$.k.[5] y2))))",
        "(seq (ap (\"k\" #canon) %map) (seq (canon %init_peer_id% %map #%cm) (seq (ap #%cm.$.zz y) (ap #%cm.$.length y2))))",
        "(seq (ap (\"k\" #canon) %map) (seq (canon %init_peer_id% %map #%cm) (fold #%cm it (seq (ap it.$.value y) (next it)))))",
    ];
    let mut panics = 0;
    for n in [0usize, 1] {
        for body in bodies {
            let mut a = peer(1);
            let aid = a.id.clone();
            let first = if n == 0 { "(null)".to_string() } else { format!(r#"(call "{aid}" ("s" "f") [] $s)"#) };
            let script = format!(r#"(seq (seq {first} (canon "{aid}" $s #canon)) {body})"#);
            let id = format!("S22 n={n} {body}");
            if guard(&id, || {
                let o1 = run(&mut a, &aid, &script, vec![], HashMap::new());
                if n == 0 || o1.ret_code != 0 { return o1; }
                run(&mut a, &aid, &script, vec![], res1(0, r#"[0,[1,2],{"a":3}]"#))
            }) { panics += 1; }
        }
    }
    println!("S22 summary: panics={panics}");
}

// S16: to_human_readable_data on empty / garbage / malformed inner data / honest data / 4000 byte mutations of honest rkyv data.
fn s16() {
    let mut a = peer(1);
    let aid = a.id.clone();
    let script = format!(r#"(seq (seq (call "{a}" ("s" "f") [] $s) (canon "{a}" $s #canon)) (seq (ap #canon.$.[0] x) (par (call "{a}" ("s" "g") [x] y) (fold $s i (seq (ap i $t) (next i))))))"#, a = aid);
    let o1 = run(&mut a, &aid, &script, vec![], HashMap::new());
    assert_eq!(o1.ret_code, 0, "{}", o1.error_message);
    let o2 = run(&mut a, &aid, &script, vec![], res1(0, r#"{"a":[1,2.5,null,"x"]}"#));
    assert_eq!(o2.ret_code, 0, "{}", o2.error_message);
    let honest = a.prev.clone();
    let env = air_interpreter_data::InterpreterDataEnvelope::try_from_slice(&honest).unwrap();
    let with_inner = |inner: Vec<u8>| { let mut e = env.clone(); e.inner_data = inner.into(); e.serialize().unwrap() };
    let mut bad_version = env.clone();
    bad_version.versions.data_version = semver::Version::parse("99.0.0").unwrap();
    let mut inputs: Vec<(String, Vec<u8>)> = vec![
        ("empty".into(), vec![]),
        ("garbage".into(), b"\x00\x01garbage\xff\xfe".to_vec()),
        ("json".into(), br#"{"version":"0.6.0"}"#.to_vec()),
        ("honest".into(), honest.clone()),
        ("garbage inner".into(), with_inner(vec![0xffu8; 64])),
        ("truncated inner".into(), with_inner(env.inner_data[..env.inner_data.len() / 2].to_vec())),
        ("empty inner".into(), with_inner(vec![])),
        ("bad version".into(), bad_version.serialize().unwrap()),
        ("truncated envelope".into(), honest[..honest.len() / 2].to_vec()),
    ];
    let inner = env.inner_data.to_vec();
    let mut seed: u64 = 0x1234_5678_9abc_def0;
    for k in 0..4000 {
        seed ^= seed << 13; seed ^= seed >> 7; seed ^= seed << 17;
        let mut m = inner.clone();
        let pos = (seed as usize) % m.len();
        m[pos] = (seed >> 32) as u8;
        if k % 3 == 0 { let p2 = ((seed >> 16) as usize) % m.len(); m[p2] ^= 1 << ((seed >> 40) % 8); }
        inputs.push((format!("mut{k}"), with_inner(m)));
    }
    let (mut ok, mut err, mut panics) = (0, 0, 0);
    for (label, input) in inputs {
        let r = std::panic::catch_unwind(std::panic::AssertUnwindSafe(|| air::to_human_readable_data(input.clone()).map(|s| s.len()).map_err(|e| e.to_string())));
        let verbose = !label.starts_with("mut");
        match r {
            Ok(Ok(n)) => { ok += 1; if verbose { println!("NOT REPRODUCED S16 {label}: Ok({n} bytes)"); } }
            Ok(Err(e)) => { err += 1; if verbose { println!("NOT REPRODUCED S16 {label}: Err({})", e.chars().take(120).collect::<String>()); } }
            Err(e) => { panics += 1; println!("REPRODUCED S16 {label}: {}", panic_msg(e)); }
        }
    }
    println!("S16 summary: ok={ok} err={err} panics={panics}");
}

// S16b: deterministic single-byte mutation search over the honest rkyv data; then the same bytes as `current_data` of execute_air.
fn s16b() {
    let mut a = peer(1);
    let mut b = peer(2);
    let aid = a.id.clone();
    // x's value CID / tetraplet CID are referenced from several places => shared Rc<str> nodes in the rkyv archive
    let script = format!(r#"(seq (call "{a}" ("s" "f") [] x) (seq (call "{a}" ("s" "f") [] y) (call "{b}" ("s" "g") [x y])))"#, a = aid, b = b.id);
    let o1 = run(&mut a, &aid, &script, vec![], HashMap::new());
    assert_eq!(o1.ret_code, 0, "{}", o1.error_message);
    let o2 = run(&mut a, &aid, &script, vec![], res1(0, "42"));
    assert_eq!(o2.ret_code, 0, "{}", o2.error_message);
    let mut res = HashMap::new();
    res.insert("2".to_string(), CallServiceResult { ret_code: 0, result: "42".to_string() });
    let o3 = run(&mut a, &aid, &script, vec![], res);
    assert_eq!(o3.ret_code, 0, "{}", o3.error_message);
    let honest = a.prev.clone();
    println!("S16b honest trace: {:?}", decode(&honest).trace);
    let env = air_interpreter_data::InterpreterDataEnvelope::try_from_slice(&honest).unwrap();
    let inner = env.inner_data.to_vec();
    let mut found = vec![];
    for pos in 0..inner.len() {
        for delta in [8u8, 64] {
            let mut m = inner.clone();
            m[pos] = m[pos].wrapping_add(delta);
            let mut e = env.clone(); e.inner_data = m.into();
            let bytes = e.serialize().unwrap();
            let input = bytes.clone();
            let r = std::panic::catch_unwind(std::panic::AssertUnwindSafe(|| air::to_human_readable_data(input).map(|s| s.len()).map_err(|e| e.to_string())));
            if let Err(e) = r {
                let msg = panic_msg(e);
                println!("REPRODUCED S16b to_human_readable_data: inner[{pos}] += {delta} (of {} bytes): {}", inner.len(), msg.chars().take(100).collect::<String>().escape_debug());
                let d = decode(&bytes);
                let lens: Vec<usize> = d.trace.iter().filter_map(|st| match st { air_interpreter_data::ExecutedState::Call(c) => c.get_cid().map(|c| c.get_inner().len()), _ => None }).collect();
                println!("S16b: mutated data passes rkyv validation; byte lengths of the trace CID strings (honest: 59 each) = {lens:?}");
                found.push((pos, delta, bytes));
                break;
            }
        }
        if found.len() >= 3 { break; }
    }
    if found.is_empty() { println!("NOT REPRODUCED S16b"); }
    for (pos, delta, bytes) in found {
        b.prev.clear();
        guard(&format!("S16b execute_air current_data with inner[{pos}] += {delta}"), || run(&mut b, &aid, &script, bytes.clone(), HashMap::new()));
        b.prev = bytes.clone();
        let params_guard = guard(&format!("S16b execute_air prev_data with inner[{pos}] += {delta}"), || {
            let params = RunParameters::new(aid.clone(), b.id.clone(), 1, 1, fluence_keypair::KeyFormat::Ed25519.into(), b.secret.clone(), "particle".to_string(), u64::MAX, u64::MAX, u64::MAX, false);
            air::execute_air(script.clone(), bytes.clone(), vec![], params, CallResultsRepr.serialize(&HashMap::new()).unwrap())
        });
        let _ = params_guard;
    }
}

// S12 through the interpreter entry point: the script is parsed inside execute_air, outside of any catch.
fn s12_exec() {
    for script in ["(ap x.$.\u{e9} y)", "(seq (ap 1 x) (ap x.$.a\u{e9} y))", "(call %init_peer_id% (\"s\" \"f\") [%last_error%.$.\u{e9}])"] {
        let mut a = peer(1);
        let aid = a.id.clone();
        guard(&format!("S12-exec {script}"), || run(&mut a, &aid, script, vec![], HashMap::new()));
        match std::panic::catch_unwind(|| air_parser::parse(script).is_ok()) {
            Ok(ok) => println!("NOT REPRODUCED S12-parse {script}: ok={ok}"),
            Err(e) => println!("REPRODUCED S12-parse {script}: {}", panic_msg(e)),
        }
    }
}

    pub fn main_g3(which: &[String]) { for w in which { match w.as_str() { "s5" => s5(), "s18" => s18(), "s6" => s6(), "s22" => s22(), "s16" => s16(), "s16b" => s16b(), "s12" => s12_exec(), _ => {} } } }
}

// ---- nondeterminism triage (first-error selection by HashMap iteration order); run each subcommand in N fresh processes ----
mod nd {
    use super::*;
    use air_interpreter_cid::{value_to_json_cid, CID};
    use air_interpreter_data::*;
    use air_interpreter_signatures::{KeyFormat, KeyPair, PeerCidTracker, PublicKey, SignatureStore};
    use polyplets::SecurityTetraplet;
    use std::rc::Rc;

    const N: u8 = 8;

    fn envelope(trace: Vec<ExecutedState>, cid_info: CidInfo, signatures: SignatureStore) -> Vec<u8> {
        InterpreterDataEnvelope::from_execution_result(ExecutionTrace::from(trace), cid_info, signatures, 0,
            semver::Version::parse("0.64.1").unwrap()).serialize().unwrap()
    }
    fn raw_value(raw: &str) -> RawValue { serde_json::from_value(serde_json::Value::String(raw.to_string())).unwrap() }
    fn fnv(s: &str) -> u64 { s.bytes().fold(0xcbf29ce484222325u64, |h, b| (h ^ b as u64).wrapping_mul(0x100000001b3)) }
    /// one line per process run: ret_code + complete message (newlines escaped) so that `sort | uniq -c` compares whole messages
    fn show(id: &str, o: &InterpreterOutcome) {
        println!("{id}: ret_code={} fnv={:016x} msg={}", o.ret_code, fnv(&o.error_message), o.error_message.replace('\n', "\\n"));
    }
    fn victim_run(prev: Vec<u8>, data: Vec<u8>, air: &str) -> InterpreterOutcome {
        let mut v = peer(5); let id = v.id.clone();
        v.prev = prev;
        run(&mut v, &id, air, data, HashMap::new())
    }

    /// A (second loop of verify_canon_result_store): 8 well-formed canon results (stored under their right CIDs), each referring to
    /// a different tetraplet CID that is absent from the tetraplet store.
    pub fn a_result() {
        let mut results = CidTracker::<CanonResultCidAggregate>::new();
        for i in 0..N {
            let tetraplet = value_to_json_cid(&SecurityTetraplet::new(format!("p{i}"), "", "", "")).unwrap();
            results.track_value(CanonResultCidAggregate { tetraplet, values: vec![] }).unwrap();
        }
        let cid_info = CidInfo { canon_result_store: results.into(), ..Default::default() };
        show("ND-A canon_result_store", &victim_run(vec![], envelope(vec![], cid_info, SignatureStore::new()), "(null)"));
    }

    /// A (first inner loop): 8 canon results, tetraplets present, each referring to a different absent canon element CID.
    pub fn a_result_values() {
        let mut tetraplets = CidTracker::<SecurityTetraplet>::new();
        let mut results = CidTracker::<CanonResultCidAggregate>::new();
        for i in 0..N {
            let tetraplet = tetraplets.track_value(SecurityTetraplet::new(format!("p{i}"), "", "", "")).unwrap();
            let missing: CID<CanonCidAggregate> = value_to_json_cid(&format!("missing element {i}")).map(|c: CID<String>| CID::new(c.get_inner())).unwrap();
            results.track_value(CanonResultCidAggregate { tetraplet, values: vec![missing] }).unwrap();
        }
        let cid_info = CidInfo { tetraplet_store: tetraplets.into(), canon_result_store: results.into(), ..Default::default() };
        show("ND-A canon_result_store.values", &victim_run(vec![], envelope(vec![], cid_info, SignatureStore::new()), "(null)"));
    }

    /// A (third loop): 8 well-formed canon elements, each referring to a different absent tetraplet CID (value present).
    pub fn a_element() {
        let mut values = CidTracker::<RawValue>::new();
        let value = values.track_raw_value(raw_value("1"));
        let mut elements = CidTracker::<CanonCidAggregate>::new();
        for i in 0..N {
            let tetraplet = value_to_json_cid(&SecurityTetraplet::new(format!("p{i}"), "", "", "")).unwrap();
            elements.track_value(CanonCidAggregate { value: value.clone(), tetraplet, provenance: Provenance::Literal }).unwrap();
        }
        let cid_info = CidInfo { value_store: values.into(), canon_element_store: elements.into(), ..Default::default() };
        show("ND-A canon_element_store", &victim_run(vec![], envelope(vec![], cid_info, SignatureStore::new()), "(null)"));
    }

    /// B (verify_raw_value): 8 raw values, value i stored under the (valid) CID of value i+1.
    pub fn b_raw() {
        let cid = |i: u8| -> CID<RawValue> { CidTracker::<RawValue>::new().track_raw_value(raw_value(&format!("\"v{}\"", i % N))) };
        let map: serde_json::Map<String, serde_json::Value> =
            (0..N).map(|i| (cid(i + 1).get_inner().to_string(), serde_json::Value::String(format!("\"v{i}\"")))).collect();
        let value_store: CidStore<RawValue> = serde_json::from_value(serde_json::Value::Object(map)).unwrap();
        assert_eq!(value_store.len(), N as usize);
        let cid_info = CidInfo { value_store, ..Default::default() };
        show("ND-B value_store", &victim_run(vec![], envelope(vec![], cid_info, SignatureStore::new()), "(null)"));
    }

    /// B (verify): 8 tetraplets, tetraplet i stored under the (valid) CID of tetraplet i+1.
    pub fn b_generic() {
        let t = |i: u8| SecurityTetraplet::new(format!("p{}", i % N), "s", "f", "");
        let map: serde_json::Map<String, serde_json::Value> =
            (0..N).map(|i| (value_to_json_cid(&t(i + 1)).unwrap().get_inner().to_string(), serde_json::to_value(t(i)).unwrap())).collect();
        let tetraplet_store: CidStore<SecurityTetraplet> = serde_json::from_value(serde_json::Value::Object(map)).unwrap();
        assert_eq!(tetraplet_store.len(), N as usize);
        let cid_info = CidInfo { tetraplet_store, ..Default::default() };
        show("ND-B tetraplet_store", &victim_run(vec![], envelope(vec![], cid_info, SignatureStore::new()), "(null)"));
    }

    fn keypair(seed: u8) -> KeyPair { KeyPair::from_secret_key(vec![seed; 32], KeyFormat::Ed25519).unwrap() }

    /// 8 peers (seeds 10..18); peer i has one executed `(call peer_i ("s" "f") [] x)` whose raw result is `"<tag>-<i>"`.
    /// Returns a consistent CidInfo, the trace and the signature store where each peer signed `signed(i)` with salt "particle".
    fn eight_peers(tag: &str, sign_trace_cid: bool) -> (CidInfo, Vec<ExecutedState>, SignatureStore) {
        let mut values = CidTracker::<RawValue>::new();
        let mut tetraplets = CidTracker::<SecurityTetraplet>::new();
        let mut results = CidTracker::<ServiceResultCidAggregate>::new();
        let mut trace = vec![];
        let mut signatures = SignatureStore::new();
        let argument_hash: Rc<str> = value_to_json_cid(&Vec::<serde_json::Value>::new()).unwrap().get_inner();
        for i in 0..N {
            let p = peer(10 + i);
            let value_cid = values.track_raw_value(raw_value(&format!("\"{tag}-{i}\"")));
            let tetraplet_cid = tetraplets.track_value(SecurityTetraplet::new(&p.id, "s", "f", "")).unwrap();
            let agg = results.track_value(ServiceResultCidAggregate { value_cid, argument_hash: argument_hash.clone(), tetraplet_cid }).unwrap();
            let kp = keypair(10 + i);
            let mut tracker = PeerCidTracker::new(p.id.clone());
            if sign_trace_cid { tracker.register(&p.id, &agg); }
            signatures.put(kp.public(), tracker.gen_signature("particle", &kp).unwrap());
            trace.push(ExecutedState::Call(CallResult::Executed(ValueRef::Scalar(agg))));
        }
        let cid_info = CidInfo { value_store: values.into(), tetraplet_store: tetraplets.into(), service_result_store: results.into(), ..Default::default() };
        (cid_info, trace, signatures)
    }

    /// C (DataVerifier::verify): 8 peers each produced one call result but signed the empty CID set.
    pub fn c_verify() {
        let (cid_info, trace, signatures) = eight_peers("cur", false);
        show("ND-C SignatureMismatch", &victim_run(vec![], envelope(trace, cid_info, signatures), "(null)"));
    }

    /// D (DataVerifier::merge): prev data and current data are each consistent and correctly signed, but for every one of the
    /// 8 peers the CID multiset of prev ({prev-i}) is not a subset of the one of current ({cur-i}) (equal sizes).
    pub fn d_merge() {
        let (pc, pt, ps) = eight_peers("prev", true);
        let (cc, ct, cs) = eight_peers("cur", true);
        show("ND-D MergeMismatch", &victim_run(envelope(pt, pc, ps), envelope(ct, cc, cs), "(null)"));
    }

    /// E (DataVerifier::new, key validation loop): 8 well-formed secp256k1 public keys (algorithm not whitelisted).
    pub fn e_keys() {
        let mut signatures = SignatureStore::new();
        for i in 0..N {
            let kp = fluence_keypair::KeyPair::from_secret_key(vec![30 + i; 32], fluence_keypair::KeyFormat::Secp256k1).unwrap();
            signatures.put(PublicKey::new(kp.public()), kp.sign(b"x").unwrap().into());
        }
        show("ND-E MalformedKey", &victim_run(vec![], envelope(vec![], CidInfo::default(), signatures), "(null)"));
    }

    /// G: parser validator; `kind` selects the script shape.
    pub fn g(kind: &str) {
        let names = ["aaa", "bbb", "ccc", "ddd", "eee", "fff", "ggg", "hhh"];
        let script = match kind {
            // 8 undefined variables, every instruction (= label span) on the same line, all spans different
            "distinct" => names.iter().fold("(null)".to_string(), |acc, n| format!(r#"(seq {acc} (call "p" ("s" "f") [{n}]))"#)),
            // 8 undefined variables inside ONE instruction: 8 labels with the same span
            "samespan" => format!(r#"(call "p" ("s" "f") [{}])"#, names.join(" ")),
            // 8 undefined variables, each instruction spans two lines: 8 multi-line labels
            "multiline" => names.iter().fold("(null)".to_string(), |acc, n| format!("(seq {acc} (call \"p\" (\"s\" \"f\")\n [{n}]))")),
            // one line, distinct spans, all kinds: undefined variables, undefined iterables, multiple next, new on iterators
            "kinds" => concat!(
                r#"(seq (seq (seq (call "p" ("s" "f") [u1]) (call "p" ("s" "f") [u2])) (seq (call "p" ("s" "f") [u3]) (ap u4 $s)))"#,
                r#" (seq (seq (seq (next i1) (next i2)) (seq (next i3) (next i4)))"#,
                r#" (seq (seq (fold $s m1 (seq (next m1) (next m1))) (fold $s m2 (seq (next m2) (next m2)))) (seq (fold $s m3 (seq (next m3) (next m3)))"#,
                r#" (seq (fold $s n1 (new n1 (next n1))) (seq (fold $s n2 (new n2 (next n2))) (fold $s n3 (new n3 (next n3)))))))))"#).to_string(),
            _ => panic!("kind"),
        };
        show(&format!("ND-G {kind}"), &victim_run(vec![], vec![], &script));
    }

    pub fn main_nd(which: &[String]) {
        match which.first().map(|s| s.as_str()) {
            Some("nd-a-result") => a_result(), Some("nd-a-values") => a_result_values(), Some("nd-a-element") => a_element(),
            Some("nd-b-raw") => b_raw(), Some("nd-b-generic") => b_generic(),
            Some("nd-c") => c_verify(), Some("nd-d") => d_merge(), Some("nd-e") => e_keys(),
            Some("nd-g") => g(&which[1]),
            Some("nd-x-emptykey") => {
                let mut signatures = SignatureStore::new();
                let kp = keypair(1);
                let pk: PublicKey = serde_json::from_value(serde_json::json!("")).unwrap();
                signatures.put(pk, kp.sign(b"x").unwrap());
                show("ND-X empty key", &victim_run(vec![], envelope(vec![], CidInfo::default(), signatures), "(null)"));
            }
            _ => {}
        }
    }
}

// ---- deep nesting (C01 recursion findings): run each in its own process, a stack overflow aborts ----
fn nested(n: usize) -> String {
    let mut s = String::with_capacity(n * 12);
    for _ in 0..n { s.push_str("(seq (null) "); }
    s.push_str("(null)");
    for _ in 0..n { s.push(')'); }
    s
}
fn deep(args: &[String]) {
    let what = args.get(0).map(|s| s.as_str()).unwrap_or("parse");
    let n: usize = args.get(1).and_then(|s| s.parse().ok()).unwrap_or(200_000);
    let script = nested(n);
    match what {
        "parse" => { let r = air_parser::parse(&script); println!("deep parse n={n}: ok={}", r.is_ok()); }
        "execute" => { let mut v = peer(9); let id = v.id.clone(); let o = run(&mut v, &id, &script, vec![], HashMap::new()); println!("deep execute n={n}: ret={}", o.ret_code); }
        "beautify" => { let r = air_beautifier::beautify_to_string(&script); println!("deep beautify n={n}: ok={}", r.is_ok()); }
        _ => {}
    }
}

// ---- C23 validator coverage gaps: scripts with undefined variables that the parser accepts ----
fn c23() {
    let cases = [
        ("control (must be rejected)", r#"(ap undefined $s)"#),
        ("control (must be rejected)", r#"(call "p" ("s" "f") [undefined])"#),
        ("field:ApMap.value", r#"(ap ("k" undefined) %map)"#),
        ("field:Canon.peer_id", r#"(canon undefined_peer $s #canon)"#),
        ("field:CanonMap.peer_id", r#"(canon undefined_peer %m #%canon)"#),
        ("field:CanonStreamMapScalar.peer_id", r#"(canon undefined_peer %m scalar)"#),
        ("payload:Fail::Scalar", r#"(fail undefined)"#),
        ("payload:Fail::ScalarWithLambda", r#"(fail undefined.$.a)"#),
        ("payload:Fail::CanonStreamWithLambda", r#"(fail #undef.$.[0])"#),
        ("payload:ApArgument::Error", r#"(ap :error:.$.[idx] x)"#),
        ("payload:ApArgument::LastError", r#"(ap %last_error%.$.[idx] x)"#),
        ("payload:ImmutableValue::Error", r#"(call "p" ("s" "f") [:error:.$.[idx]])"#),
        ("payload:ImmutableValue::LastError", r#"(call "p" ("s" "f") [%last_error%.$.[idx]])"#),
    ];
    for (id, script) in cases {
        let r = air_parser::parse(script);
        println!("C23 {id}: {script} -> {}", if r.is_ok() { "ACCEPTED".to_string() } else { format!("rejected") });
    }
}

// ---- C20: first-error selection by hash-map iteration order (run the process several times and compare) ----
fn c20() {
    let r = air_parser::parse(r#"(seq (seq (call "p" ("s" "f") [aaa]) (call "p" ("s" "f") [bbb])) (seq (call "p" ("s" "f") [ccc]) (call "p" ("s" "f") [ddd])))"#);
    let msg = r.err().unwrap_or_default();
    let order: Vec<usize> = ["'aaa'", "'bbb'", "'ccc'", "'ddd'"].iter().map(|n| msg.find(n).unwrap_or(0)).collect();
    println!("C20 parser message: len={} positions-of-names={:?}", msg.len(), order);
    // two dangling references in the CID info: which one is reported?
    use air_interpreter_data::*;
    use polyplets::SecurityTetraplet;
    let mut values = CidTracker::<RawValue>::new();
    let rv: RawValue = serde_json::from_value(serde_json::json!("1")).unwrap(); let v1 = values.track_raw_value(rv);
    let mut tetraplets = CidTracker::<SecurityTetraplet>::new();
    
    let mut results = CidTracker::<ServiceResultCidAggregate>::new();
    for i in 0..8 {
        let ah: std::rc::Rc<str> = format!("hash{i}").into();
        let ti = tetraplets.track_value(SecurityTetraplet::new(format!("p{i}"), "s", "f", "")).unwrap();
        results.track_value(ServiceResultCidAggregate { value_cid: v1.clone(), argument_hash: ah, tetraplet_cid: ti }).unwrap();
    }
    // stores lack the value and the tetraplet: 8 entries x 2 dangling references, the first one found is reported
    let cid_info = CidInfo { service_result_store: results.into(), ..Default::default() };
    let data = InterpreterDataEnvelope::from_execution_result(ExecutionTrace::from(vec![]), cid_info, air_interpreter_signatures::SignatureStore::new(), 0,
        semver::Version::parse("0.64.1").unwrap()).serialize().unwrap();
    let mut v = peer(5); let id = v.id.clone();
    let o = run(&mut v, &id, "(null)", data, HashMap::new());
    println!("C20 dangling-reference message: ret={} {}", o.ret_code, o.error_message);
}

// ---- C17: tetraplets of lens results on canon streams (deviant sibling) ----
fn c17() {
    use air_interpreter_sede::FromSerialized;
    let mut a = peer(1); let aid = a.id.clone();
    let script = format!(r#"(seq (call "{a}" ("s" "f") [] v) (seq (ap v $s) (seq (canon "{a}" $s #canon) (call "{a}" ("s" "g") [v.$.a #canon.$.[0].a #canon.length]))))"#, a = aid);
    let o1 = run(&mut a, &aid, &script, vec![], HashMap::new());
    assert_eq!(o1.ret_code, 0, "{}", o1.error_message);
    let mut res = HashMap::new();
    res.insert("1".to_string(), CallServiceResult { ret_code: 0, result: r#"{"a": 1}"#.to_string() });
    let o2 = run(&mut a, &aid, &script, vec![], res);
    assert_eq!(o2.ret_code, 0, "{}", o2.error_message);
    let reqs = CallRequestsRepr.deserialize(&o2.call_requests).unwrap();
    for (id, p) in reqs {
        let tets: Vec<Vec<polyplets::SecurityTetraplet>> = TetrapletsRepr.deserialize(&p.tetraplets).unwrap();
        for (i, t) in tets.iter().enumerate() {
            println!("C17 request {id} arg {i}: {}", t.iter().map(|t| format!("(peer=.. service={:?} function={:?} lens={:?})", t.service_id, t.function_name, t.lens)).collect::<Vec<_>>().join(" "));
        }
    }
}

fn parse_scripts(scripts: &[String]) {
    for s in scripts {
        let r = air_parser::parse(s);
        println!("parse {:?}: {}", s, if r.is_ok() { "ACCEPTED".to_string() } else { format!("rejected: {}", r.err().unwrap().lines().next().unwrap_or("")) });
    }
}

fn main() {
    let which: Vec<String> = std::env::args().skip(1).collect();
    if which.first().map(|w| w == "parse").unwrap_or(false) { parse_scripts(&which[1..]); return; }
    if which.iter().any(|w| w == "c17") { c17(); }
    if which.first().map(|w| w.starts_with("nd-")).unwrap_or(false) { nd::main_nd(&which); return; }
    if which.iter().any(|w| w == "c20") { c20(); }
    if which.iter().any(|w| w == "c23") { c23(); }
    if which.first().map(|w| w == "deep").unwrap_or(false) { deep(&which[1..]); return; }
    if which.is_empty() || which.iter().any(|w| w == "c03") { c03(); }
    g1::main_g1(&which);
    g2::main_g2(&which);
    g3::main_g3(&which);
}
