// Triage case (DESIGN §6): run as a module of air/tests/test_module with
//   cargo test -p aquavm-air --features air-test-utils/test_with_native_code --offline --test test_module triage_c18 -- --nocapture
// On the tree before 1162d1f / f3a5629 the CAUGHT and UNCAUGHT lines of each script disagree on the message.
use air_test_utils::prelude::*;

async fn run(script: &str) -> (i64, String, String) {
    let mut vm = create_avm(echo_call_service(), "peer").await;
    let res = call_vm!(vm, <_>::default(), script, "", "");
    let data = if res.ret_code == 0 { format!("{:?}", data_from_result(&res).cid_info.value_store) } else { String::new() };
    (res.ret_code, res.error_message, data)
}

#[tokio::test]
async fn triage_c18() {
    for body in [r#"(par (fail 1 "a") (fail 2 "b"))"#, r#"(seq (par (fail 1 "a") (null)) (fail 3 "c"))"#] {
        let caught = format!(r#"(xor {body} (call "peer" ("" "") [:error:] out))"#);
        let (rc, msg, data) = run(&caught).await;
        println!("CAUGHT   {body}: rc={rc} msg={msg} :error:={data}");
        let (rc, msg, _) = run(body).await;
        println!("UNCAUGHT {body}: rc={rc} msg={msg}");
    }
}
