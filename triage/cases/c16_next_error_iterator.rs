use air_test_utils::prelude::*;
use futures::FutureExt;
use std::cell::RefCell;
use std::rc::Rc;

#[tokio::test]
async fn triage_c16_next_error_iterator() {
    let log: Rc<RefCell<Vec<(String, String)>>> = <_>::default();
    let l2 = log.clone();
    let svc: CallServiceClosure<'static> = Box::new(move |params| {
        let f = params.function_name.clone();
        let arg = params.arguments.get(0).cloned().unwrap_or(json!(null));
        l2.borrow_mut().push((f.clone(), arg.to_string()));
        let res = match f.as_str() {
            "xs" => CallServiceResult::ok(json!([1, 2])),
            // both the work and the handler fail for element 2, so the failure escapes iteration 2 through `next`
            "work" | "handler" if arg == json!(2) => CallServiceResult::err(1, json!("boom")),
            _ => CallServiceResult::ok(json!("ok")),
        };
        async move { res }.boxed_local()
    });
    let mut vm = create_avm(svc, "p").await;
    let script = r#"
    (seq
        (call "p" ("" "xs") [] xs)
        (fold xs i
            (xor
                (seq (call "p" ("" "work") [i]) (next i))
                (call "p" ("" "handler") [i]))))
    "#;
    let res = call_vm!(vm, <_>::default(), script, "", "");
    println!("TRIAGE ret_code={} log={:?}", res.ret_code, log.borrow());
    panic!("print");
}
