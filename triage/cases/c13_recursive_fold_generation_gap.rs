use air_test_utils::prelude::*;

use futures::FutureExt;

use std::cell::RefCell;
use std::collections::HashMap;
use std::collections::VecDeque;
use std::rc::Rc;

type Log = Rc<RefCell<Vec<(String, i64)>>>;

fn step_service(peer: &'static str, route: Vec<&'static str>, log: Log) -> CallServiceClosure<'static> {
    Box::new(move |params| {
        let result = match params.function_name.as_str() {
            "init" => json!({"peer": route[0], "n": 0}),
            "step" => {
                let n = params.arguments[0].as_i64().unwrap();
                log.borrow_mut().push((peer.to_string(), n));
                let next = (n + 1) as usize;
                json!({"peer": route[next], "n": next})
            }
            _ => json!("ok"),
        };
        async move { CallServiceResult::ok(result) }.boxed_local()
    })
}

async fn run_route(route: Vec<&'static str>) -> (Vec<(String, i64)>, HashMap<String, RawAVMOutcome>) {
    let last = route.len() - 1;
    let script = format!(
        r#"
        (seq
            (call "A" ("" "init") [] $s)
            (seq
                (fold $s i
                    (xor
                        (match i.$.n {last}
                            (null))
                        (seq
                            (call i.$.peer ("" "step") [i.$.n] $s)
                            (next i))))
                (seq
                    (canon "A" $s #c)
                    (call "A" ("" "out") [#c]))))
        "#
    );

    let log: Log = <_>::default();
    let mut vms = HashMap::new();
    for peer in ["A", "B"] {
        vms.insert(
            peer.to_string(),
            create_avm(step_service(peer, route.clone(), log.clone()), peer).await,
        );
    }

    let mut prev_data: HashMap<String, Vec<u8>> = HashMap::new();
    let mut last_outcome = HashMap::new();
    let mut queue = VecDeque::new();
    queue.push_back(("A".to_string(), vec![]));
    let mut guard = 0;
    while let Some((peer, data)) = queue.pop_front() {
        guard += 1;
        assert!(guard < 50, "too many hops");
        let vm = vms.get_mut(&peer).unwrap();
        let prev = prev_data.get(&peer).cloned().unwrap_or_default();
        let result = checked_call_vm!(vm, <_>::default(), &script, prev, data);
        println!("=== after run at {peer}");
        print_trace(&result, &peer);
        prev_data.insert(peer.clone(), result.data.clone());
        for next in result.next_peer_pks.iter() {
            queue.push_back((next.clone(), result.data.clone()));
        }
        last_outcome.insert(peer, result);
    }

    let log = log.borrow().clone();
    (log, last_outcome)
}

fn canon_len_at_a(outcomes: &HashMap<String, RawAVMOutcome>) -> Option<usize> {
    let trace = trace_from_result(outcomes.get("A").unwrap());
    let data = data_from_result(outcomes.get("A").unwrap());
    for state in trace.iter() {
        if let ExecutedState::Canon(CanonResult::Executed(cid)) = state {
            let agg = data.cid_info.canon_result_store.get(cid).unwrap();
            return Some(agg.values.len());
        }
    }
    None
}

#[tokio::test]
async fn explore_route_bba() {
    let route = vec!["B", "B", "A", "A", "A"];
    let (log, outcomes) = run_route(route).await;
    println!("log: {log:?}");
    println!("canon: {:?}", canon_len_at_a(&outcomes));
    let steps: Vec<i64> = log.iter().map(|(_, n)| *n).collect();
    assert_eq!(steps, vec![0, 1, 2, 3]);
    assert_eq!(canon_len_at_a(&outcomes), Some(5));
}

#[tokio::test]
async fn explore_route_aaa() {
    let route = vec!["A", "A", "A", "A", "A"];
    let (log, outcomes) = run_route(route).await;
    println!("log: {log:?}");
    let steps: Vec<i64> = log.iter().map(|(_, n)| *n).collect();
    assert_eq!(steps, vec![0, 1, 2, 3]);
    assert_eq!(canon_len_at_a(&outcomes), Some(5));
}

#[tokio::test]
async fn explore_route_abab() {
    let route = vec!["A", "B", "A", "B", "A"];
    let (log, outcomes) = run_route(route).await;
    println!("log: {log:?}");
    let steps: Vec<i64> = log.iter().map(|(_, n)| *n).collect();
    assert_eq!(steps, vec![0, 1, 2, 3]);
    assert_eq!(canon_len_at_a(&outcomes), Some(5));
}
