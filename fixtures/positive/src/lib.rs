//! Positive controls for the zero-expected / census rules of /verif (DESIGN §7, §8).
//! Every `bad_*` function contains exactly one construct a rule must report; every `ok_*` function is the
//! closest construct the rule must NOT report.  The crate is analysed by the same airlint driver as /repo
//! on every run of the checks that use those rules; a matcher that stops firing here fails the check.
use std::collections::HashMap;
use std::time::SystemTime;

pub struct Keeper {
    pub prev_len: u32,
    pub current_len: u32,
    pub new_to_prev_pos: HashMap<u32, u32>,
    pub new_to_current_pos: HashMap<u32, u32>,
}

impl Keeper {
    pub fn prev_slider(&self) -> u32 {
        self.prev_len
    }
    pub fn current_slider(&self) -> u32 {
        self.current_len
    }
}

// R-SIDES ------------------------------------------------------------------------------------------
pub fn bad_side_crossing(k: &mut Keeper, new_pos: u32) {
    let pos = k.prev_slider().wrapping_sub(1);
    k.new_to_current_pos.insert(new_pos, pos);
}

pub fn ok_side_same(k: &mut Keeper, new_pos: u32) {
    let pos = k.current_slider().wrapping_sub(1);
    k.new_to_current_pos.insert(new_pos, pos);
}

fn takes_sides(prev_value: u32, current_value: u32) -> u32 {
    prev_value.wrapping_mul(3) ^ current_value
}

pub fn bad_side_args(k: &Keeper) -> u32 {
    takes_sides(k.current_slider(), k.prev_slider())
}

pub fn ok_side_args(k: &Keeper) -> u32 {
    takes_sides(k.prev_slider(), k.current_slider())
}

// R-NOSRC (C20) --------------------------------------------------------------------------------------
pub fn bad_clock() -> u64 {
    SystemTime::now().duration_since(SystemTime::UNIX_EPOCH).map(|d| d.as_secs()).unwrap_or(0)
}

pub fn bad_env() -> bool {
    std::env::var("AIR_FIXTURE").is_ok()
}

// hash-order census (C20) ----------------------------------------------------------------------------
pub fn bad_hash_order(m: &HashMap<u32, u32>) -> Option<u32> {
    m.keys().next().copied()
}

pub fn ok_hash_lookup(m: &HashMap<u32, u32>) -> Option<u32> {
    m.get(&1).copied()
}

pub fn bad_loop_carried(m: &HashMap<u32, u32>) -> Option<u32> {
    let mut last = None;
    for (k, v) in m {
        if *v > 1 {
            last = Some(*k);
        }
    }
    last
}

pub fn ok_loop_collected(m: &HashMap<u32, u32>) -> usize {
    let mut all = Vec::new();
    let mut found = false;
    for (k, v) in m {
        if *v > 1 {
            all.push(*k);
            found = true;
        }
    }
    all.len() + found as usize
}

// panic census (C01) ---------------------------------------------------------------------------------
pub fn bad_unwrap(v: Option<u32>) -> u32 {
    v.unwrap()
}

pub fn bad_index(v: &[u32], i: usize) -> u32 {
    v[i]
}

pub fn bad_add_u32(a: u32, b: u32) -> u32 {
    a + b
}

pub fn bad_sub_unguarded(a: u32, b: u32) -> u32 {
    a - b
}

pub fn ok_sub_guarded(a: u32, b: u32) -> u32 {
    if a < b {
        return 0;
    }
    a - b
}

pub fn ok_checked(a: u32, b: u32) -> Option<u32> {
    a.checked_add(b)
}

// allocation census (C01) ----------------------------------------------------------------------------
pub fn bad_alloc_wire(n: u32) -> Vec<u8> {
    Vec::with_capacity(n as usize)
}

pub fn ok_alloc_len(v: &[u8]) -> Vec<u8> {
    Vec::with_capacity(v.len() + 1)
}

// unsafe census (C01) --------------------------------------------------------------------------------
pub fn bad_unsafe(v: &[u8]) -> &str {
    unsafe { std::str::from_utf8_unchecked(v) }
}

// recursion census (C01) -----------------------------------------------------------------------------
pub fn bad_recursion(n: u32) -> u32 {
    if n == 0 {
        0
    } else {
        bad_recursion(n - 1) + 1
    }
}

/// the fixture's entry point: everything above is reachable from here
pub fn entry(k: &mut Keeper, m: &HashMap<u32, u32>, v: &[u32], b: &[u8]) -> u64 {
    bad_side_crossing(k, 1);
    ok_side_same(k, 2);
    let mut acc = bad_side_args(k) as u64 + ok_side_args(k) as u64;
    acc += bad_clock();
    acc += bad_env() as u64;
    acc += bad_hash_order(m).unwrap_or(0) as u64 + ok_hash_lookup(m).unwrap_or(0) as u64;
    acc += bad_loop_carried(m).unwrap_or(0) as u64 + ok_loop_collected(m) as u64;
    acc += bad_unwrap(v.first().copied()) as u64 + bad_index(v, 3) as u64 + bad_add_u32(1, 2) as u64;
    acc += bad_sub_unguarded(3, 1) as u64 + ok_sub_guarded(3, 1) as u64 + ok_checked(1, 2).unwrap_or(0) as u64;
    acc += bad_alloc_wire(3).capacity() as u64 + ok_alloc_len(b).capacity() as u64;
    acc += bad_unsafe(b).len() as u64;
    acc += bad_recursion(3) as u64;
    acc
}
