// airlint: rustc_private fact extractor. It judges nothing; it dumps, per workspace crate,
// the type-checked program as JSON lines (functions with their MIR control-flow graph,
// resolved callees, ADTs, impls, constants, unsafe blocks) for the Python rule evaluators.
//
// Invoked as RUSTC_WORKSPACE_WRAPPER: argv = [airlint, <rustc path>, rustc args...].
#![feature(rustc_private)]
#![allow(clippy::all)]

extern crate rustc_abi;
extern crate rustc_driver;
extern crate rustc_hir;
extern crate rustc_interface;
extern crate rustc_middle;
extern crate rustc_session;
extern crate rustc_span;

use std::fmt::Write as _;

use rustc_driver::Compilation;
use rustc_hir::def::DefKind;
use rustc_hir::def_id::{DefId, LocalDefId, LOCAL_CRATE};
use rustc_middle::mir::{
    AggregateKind, AssertKind, BasicBlock, Body, BorrowKind, CastKind, Const, ConstValue, Local,
    Operand, Place, PlaceRef, ProjectionElem, Rvalue, StatementKind, TerminatorKind, UnwindAction,
    VarDebugInfoContents,
};
use rustc_middle::ty::print::{
    with_no_trimmed_paths, with_no_visible_paths, with_resolve_crate_name, PrintTraitRefExt,
};

macro_rules! pp {
    ($e:expr) => {
        with_resolve_crate_name!(with_no_visible_paths!(with_no_trimmed_paths!($e)))
    };
}
use rustc_middle::ty::{self, GenericArgsRef, Instance, InstanceKind, Ty, TyCtxt, TypingEnv};
use rustc_span::Span;

struct Cb;

impl rustc_driver::Callbacks for Cb {
    fn after_analysis<'tcx>(
        &mut self,
        _c: &rustc_interface::interface::Compiler,
        tcx: TyCtxt<'tcx>,
    ) -> Compilation {
        if let Ok(dir) = std::env::var("AIRLINT_OUT") {
            let name = tcx.crate_name(LOCAL_CRATE).to_string();
            if !name.starts_with("build_script_") {
                analyze(tcx, &dir, &name);
            }
        }
        Compilation::Continue
    }
}

fn main() {
    let mut args: Vec<String> = std::env::args().collect();
    // wrapper mode: argv[1] is the path of the real rustc
    if args.len() > 1 && (args[1].ends_with("rustc") || args[1].contains("/rustc")) {
        args.remove(1);
    }
    rustc_driver::run_compiler(&args, &mut Cb);
}

// ---------------------------------------------------------------------------------------------
// JSON helpers

fn js(s: &str) -> String {
    let mut o = String::with_capacity(s.len() + 2);
    o.push('"');
    for c in s.chars() {
        match c {
            '"' => o.push_str("\\\""),
            '\\' => o.push_str("\\\\"),
            '\n' => o.push_str("\\n"),
            '\r' => o.push_str("\\r"),
            '\t' => o.push_str("\\t"),
            c if (c as u32) < 0x20 => {
                let _ = write!(o, "\\u{:04x}", c as u32);
            }
            c => o.push(c),
        }
    }
    o.push('"');
    o
}

fn jlist(items: &[String]) -> String {
    format!("[{}]", items.join(","))
}

// ---------------------------------------------------------------------------------------------

struct Cx<'tcx> {
    tcx: TyCtxt<'tcx>,
}

impl<'tcx> Cx<'tcx> {
    fn ty_s(&self, t: Ty<'tcx>) -> String {
        pp!(format!("{}", t))
    }

    fn path(&self, d: DefId) -> String {
        pp!(self.tcx.def_path_str(d))
    }

    fn path_args(&self, d: DefId, a: GenericArgsRef<'tcx>) -> String {
        pp!(self.tcx.def_path_str_with_args(d, a))
    }

    // unique id: crate name + verbose def path
    fn id(&self, d: DefId) -> String {
        format!(
            "{}{}",
            self.tcx.crate_name(d.krate),
            self.tcx.def_path(d).to_string_no_crate_verbose()
        )
    }

    fn span_s(&self, sp: Span) -> String {
        self.tcx.sess.source_map().span_to_diagnostic_string(sp)
    }

    fn expn_list(&self, sp: Span) -> Vec<String> {
        let mut v = Vec::new();
        for e in sp.macro_backtrace() {
            let s = match e.kind {
                rustc_span::ExpnKind::Macro(k, name) => format!("{}:{}", k.descr(), name),
                rustc_span::ExpnKind::Desugaring(k) => format!("desugar:{:?}", k),
                rustc_span::ExpnKind::AstPass(k) => format!("astpass:{:?}", k),
                rustc_span::ExpnKind::Root => "root".to_string(),
            };
            v.push(js(&s));
        }
        v
    }

    fn span_json(&self, sp: Span) -> String {
        let ex = self.expn_list(sp);
        if ex.is_empty() {
            format!("{{\"s\":{}}}", js(&self.span_s(sp)))
        } else {
            let cs = sp.source_callsite();
            format!(
                "{{\"s\":{},\"cs\":{},\"ex\":{}}}",
                js(&self.span_s(sp)),
                js(&self.span_s(cs)),
                jlist(&ex)
            )
        }
    }

    fn place(&self, body: &Body<'tcx>, p: Place<'tcx>) -> String {
        self.place_ref(body, p.as_ref())
    }

    fn place_ref(&self, body: &Body<'tcx>, p: PlaceRef<'tcx>) -> String {
        let tcx = self.tcx;
        let mut projs = Vec::new();
        for (base, elem) in p.iter_projections() {
            let bty = base.ty(&body.local_decls, tcx);
            let s = match elem {
                ProjectionElem::Deref => "\"*\"".to_string(),
                ProjectionElem::Field(f, _) => {
                    let idx = f.as_usize();
                    match bty.ty.kind() {
                        ty::Adt(adt, _) => {
                            let vidx = bty.variant_index.unwrap_or(rustc_abi::FIRST_VARIANT);
                            let var = adt.variant(vidx);
                            let fname = var
                                .fields
                                .get(f)
                                .map(|fd| fd.name.to_string())
                                .unwrap_or_else(|| idx.to_string());
                            if adt.is_enum() {
                                format!(
                                    "{{\"f\":{},\"i\":{},\"on\":{},\"v\":{}}}",
                                    js(&fname),
                                    idx,
                                    js(&self.path(adt.did())),
                                    js(var.name.as_str())
                                )
                            } else {
                                format!(
                                    "{{\"f\":{},\"i\":{},\"on\":{}}}",
                                    js(&fname),
                                    idx,
                                    js(&self.path(adt.did()))
                                )
                            }
                        }
                        ty::Tuple(_) => format!("{{\"f\":\"{}\",\"i\":{},\"on\":\"tuple\"}}", idx, idx),
                        ty::Closure(..) => {
                            format!("{{\"f\":\"{}\",\"i\":{},\"on\":\"closure\"}}", idx, idx)
                        }
                        _ => format!("{{\"f\":\"{}\",\"i\":{},\"on\":\"?\"}}", idx, idx),
                    }
                }
                ProjectionElem::Index(l) => format!("{{\"ix\":{}}}", l.as_usize()),
                ProjectionElem::ConstantIndex { offset, min_length, from_end } => format!(
                    "{{\"cix\":{},\"min\":{},\"fe\":{}}}",
                    offset, min_length, from_end
                ),
                ProjectionElem::Subslice { from, to, from_end } => {
                    format!("{{\"sub\":[{},{}],\"fe\":{}}}", from, to, from_end)
                }
                ProjectionElem::Downcast(_, v) => {
                    let name = match bty.ty.kind() {
                        ty::Adt(adt, _) => adt.variant(v).name.to_string(),
                        _ => v.as_usize().to_string(),
                    };
                    format!("{{\"dc\":{}}}", js(&name))
                }
                _ => "\"?\"".to_string(),
            };
            projs.push(s);
        }
        format!("{{\"l\":{},\"p\":{}}}", p.local.as_usize(), jlist(&projs))
    }

    fn konst(&self, owner: DefId, c: &Const<'tcx>) -> String {
        let tcx = self.tcx;
        let ty = c.ty();
        let mut parts = vec![format!("\"ty\":{}", js(&self.ty_s(ty)))];
        parts.push(format!("\"d\":{}", js(&pp!(format!("{}", c)))));
        if let ty::FnDef(d, a) = ty.kind() {
            parts.push(format!("\"fn\":{}", self.callee_json(owner, *d, a)));
        }
        if let Const::Unevaluated(uv, _) = c {
            if let Some(p) = uv.promoted {
                parts.push(format!("\"promoted\":{}", p.as_usize()));
                // constants mentioned by the promoted body (e.g. `&STREAM_MAX_SIZE`)
                let bodies = tcx.promoted_mir(uv.def);
                if let Some(pb) = bodies.get(p) {
                    let mut inner = Vec::new();
                    for bb in pb.basic_blocks.iter() {
                        for st in &bb.statements {
                            if let StatementKind::Assign(b) = &st.kind {
                                let (_, rv) = &**b;
                                if let Rvalue::Aggregate(ak, _) = rv {
                                    if let AggregateKind::Adt(d, vi, _, _, _) = &**ak {
                                        let adt = tcx.adt_def(*d);
                                        inner.push(format!(
                                            "{{\"ty\":{},\"d\":{}}}",
                                            js(&self.path(*d)),
                                            js(&format!("{}::{}", self.path(*d), adt.variant(*vi).name))
                                        ));
                                    }
                                }
                                let ops: Vec<&Operand<'tcx>> = match rv {
                                    Rvalue::Use(o, ..) => vec![o],
                                    Rvalue::Cast(_, o, _) => vec![o],
                                    Rvalue::Aggregate(_, os) => os.iter().collect(),
                                    _ => vec![],
                                };
                                for o in ops {
                                    if let Operand::Constant(c) = o {
                                        if !matches!(c.const_, Const::Unevaluated(u, _) if u.promoted.is_some()) {
                                            inner.push(self.konst(uv.def, &c.const_));
                                        }
                                    }
                                }
                            }
                        }
                    }
                    parts.push(format!("\"pconsts\":{}", jlist(&inner)));
                }
            } else {
                parts.push(format!("\"def\":{}", js(&self.path(uv.def))));
            }
        }
        if let Const::Val(ConstValue::Scalar(rustc_middle::mir::interpret::Scalar::Ptr(ptr, _)), _) = c {
            if let Some(rustc_middle::mir::interpret::GlobalAlloc::Static(sd)) =
                tcx.try_get_global_alloc(ptr.provenance.alloc_id())
            {
                parts.push(format!("\"static\":{}", js(&self.path(sd))));
            }
        }
        let tenv = TypingEnv::post_analysis(tcx, owner);
        if ty.is_integral() || ty.is_bool() || ty.is_char() {
            if let Some(si) = c.try_eval_scalar_int(tcx, tenv) {
                let size = si.size();
                let v = if ty.is_signed() {
                    si.to_int(size).to_string()
                } else {
                    si.to_uint(size).to_string()
                };
                parts.push(format!("\"v\":{}", js(&v)));
            }
        } else if let ty::Ref(_, inner, _) = ty.kind() {
            if inner.is_str() {
                if let Const::Val(cv, _) = c {
                    if let Some(bytes) = cv.try_get_slice_bytes_for_diagnostics(tcx) {
                        parts.push(format!("\"v\":{}", js(&String::from_utf8_lossy(bytes))));
                    }
                }
            }
        }
        format!("{{{}}}", parts.join(","))
    }

    fn operand(&self, owner: DefId, body: &Body<'tcx>, o: &Operand<'tcx>) -> String {
        match o {
            Operand::Copy(p) => format!("{{\"copy\":{}}}", self.place(body, *p)),
            Operand::Move(p) => format!("{{\"move\":{}}}", self.place(body, *p)),
            Operand::Constant(c) => format!("{{\"const\":{}}}", self.konst(owner, &c.const_)),
            _ => "{\"rt\":true}".to_string(),
        }
    }

    fn callee_json(&self, owner: DefId, d: DefId, a: GenericArgsRef<'tcx>) -> String {
        let tcx = self.tcx;
        let tenv = TypingEnv::post_analysis(tcx, owner);
        let mut kind = "unresolved";
        let (mut rd, mut ra) = (d, a);
        if let Ok(Some(inst)) = Instance::try_resolve(tcx, tenv, d, a) {
            kind = match inst.def {
                InstanceKind::Item(_) => "item",
                InstanceKind::Virtual(..) => "virtual",
                InstanceKind::Intrinsic(_) => "intrinsic",
                InstanceKind::ClosureOnceShim { .. } => "closure_once",
                InstanceKind::FnPtrShim(..) => "fnptr_shim",
                InstanceKind::DropGlue(..) => "drop_glue",
                InstanceKind::CloneShim(..) => "clone_shim",
                InstanceKind::ReifyShim(..) => "reify",
                InstanceKind::VTableShim(_) => "vtable_shim",
                _ => "other",
            };
            rd = inst.def_id();
            ra = inst.args;
        }
        let mut parts = vec![
            format!("\"path\":{}", js(&self.path(rd))),
            format!("\"id\":{}", js(&self.id(rd))),
            format!("\"full\":{}", js(&self.path_args(rd, ra))),
            format!("\"kind\":\"{}\"", kind),
        ];
        if rd != d {
            parts.push(format!("\"orig\":{}", js(&self.path(d))));
            parts.push(format!("\"orig_full\":{}", js(&self.path_args(d, a))));
        }
        if rd.is_local() {
            parts.push("\"local\":true".to_string());
        }
        format!("{{{}}}", parts.join(","))
    }

    fn rvalue(&self, owner: DefId, body: &Body<'tcx>, rv: &Rvalue<'tcx>) -> String {
        let tcx = self.tcx;
        match rv {
            Rvalue::Use(o, ..) => format!("{{\"k\":\"use\",\"op\":{}}}", self.operand(owner, body, o)),
            Rvalue::CopyForDeref(p) => {
                format!("{{\"k\":\"use\",\"op\":{{\"copy\":{}}}}}", self.place(body, *p))
            }
            Rvalue::Ref(_, bk, p) => format!(
                "{{\"k\":\"ref\",\"mut\":{},\"place\":{}}}",
                matches!(bk, BorrowKind::Mut { .. }),
                self.place(body, *p)
            ),
            Rvalue::RawPtr(k, p) => format!(
                "{{\"k\":\"rawptr\",\"mut\":{},\"place\":{}}}",
                k.to_mutbl_lossy().is_mut(),
                self.place(body, *p)
            ),
            Rvalue::Cast(k, o, t) => {
                let ks = match k {
                    CastKind::IntToInt => "IntToInt".to_string(),
                    CastKind::FloatToInt => "FloatToInt".to_string(),
                    CastKind::FloatToFloat => "FloatToFloat".to_string(),
                    CastKind::IntToFloat => "IntToFloat".to_string(),
                    CastKind::PtrToPtr => "PtrToPtr".to_string(),
                    CastKind::Transmute => "Transmute".to_string(),
                    CastKind::PointerCoercion(pc, _) => format!("Coerce:{:?}", pc),
                    other => format!("{:?}", other),
                };
                format!(
                    "{{\"k\":\"cast\",\"kind\":{},\"op\":{},\"from\":{},\"to\":{}}}",
                    js(&ks),
                    self.operand(owner, body, o),
                    js(&self.ty_s(o.ty(&body.local_decls, tcx))),
                    js(&self.ty_s(*t))
                )
            }
            Rvalue::BinaryOp(op, ab) => format!(
                "{{\"k\":\"bin\",\"op\":\"{:?}\",\"a\":{},\"b\":{},\"aty\":{}}}",
                op,
                self.operand(owner, body, &ab.0),
                self.operand(owner, body, &ab.1),
                js(&self.ty_s(ab.0.ty(&body.local_decls, tcx)))
            ),
            Rvalue::UnaryOp(op, o) => format!(
                "{{\"k\":\"un\",\"op\":\"{:?}\",\"a\":{}}}",
                op,
                self.operand(owner, body, o)
            ),
            Rvalue::Discriminant(p) => {
                let pty = p.ty(&body.local_decls, tcx).ty;
                let mut vars = Vec::new();
                let mut adt_s = self.ty_s(pty);
                if let ty::Adt(adt, _) = pty.kind() {
                    adt_s = self.path(adt.did());
                    if adt.is_enum() {
                        for (vi, d) in adt.discriminants(tcx) {
                            vars.push(format!("{}:{}", js(&d.val.to_string()), js(adt.variant(vi).name.as_str())));
                        }
                    }
                }
                format!(
                    "{{\"k\":\"discr\",\"place\":{},\"adt\":{},\"vars\":{{{}}}}}",
                    self.place(body, *p),
                    js(&adt_s),
                    vars.join(",")
                )
            }
            Rvalue::Aggregate(ak, ops) => {
                let opsj: Vec<String> = ops.iter().map(|o| self.operand(owner, body, o)).collect();
                match &**ak {
                    AggregateKind::Adt(d, vi, _, _, _) => {
                        let adt = tcx.adt_def(*d);
                        let var = adt.variant(*vi);
                        let fields: Vec<String> =
                            var.fields.iter().map(|f| js(f.name.as_str())).collect();
                        format!(
                            "{{\"k\":\"agg\",\"kind\":\"adt\",\"adt\":{},\"variant\":{},\"fields\":{},\"ops\":{}}}",
                            js(&self.path(*d)),
                            js(var.name.as_str()),
                            jlist(&fields),
                            jlist(&opsj)
                        )
                    }
                    AggregateKind::Tuple => format!("{{\"k\":\"agg\",\"kind\":\"tuple\",\"ops\":{}}}", jlist(&opsj)),
                    AggregateKind::Array(_) => format!("{{\"k\":\"agg\",\"kind\":\"array\",\"ops\":{}}}", jlist(&opsj)),
                    AggregateKind::Closure(d, _) => format!(
                        "{{\"k\":\"agg\",\"kind\":\"closure\",\"closure\":{},\"cid\":{},\"ops\":{}}}",
                        js(&self.path(*d)),
                        js(&self.id(*d)),
                        jlist(&opsj)
                    ),
                    _ => format!("{{\"k\":\"agg\",\"kind\":\"other\",\"ops\":{}}}", jlist(&opsj)),
                }
            }
            Rvalue::Repeat(o, _) => format!("{{\"k\":\"repeat\",\"op\":{}}}", self.operand(owner, body, o)),
            other => format!("{{\"k\":\"other\",\"d\":{}}}", js(&format!("{:?}", other))),
        }
    }

    fn line_of(&self, sp: Span) -> usize {
        let sm = self.tcx.sess.source_map();
        let cs = sp.source_callsite();
        sm.lookup_char_pos(cs.lo()).line
    }

    fn body_json(&self, owner: DefId, body: &Body<'tcx>) -> String {
        let tcx = self.tcx;
        let mut blocks = Vec::new();
        for (_bb, data) in body.basic_blocks.iter_enumerated() {
            let mut stmts = Vec::new();
            for st in &data.statements {
                match &st.kind {
                    StatementKind::Assign(b) => {
                        let (lhs, rv) = &**b;
                        stmts.push(format!(
                            "{{\"lhs\":{},\"rv\":{},\"ln\":{}}}",
                            self.place(body, *lhs),
                            self.rvalue(owner, body, rv),
                            self.line_of(st.source_info.span)
                        ));
                    }
                    StatementKind::SetDiscriminant { place, variant_index } => {
                        stmts.push(format!(
                            "{{\"setdiscr\":{},\"variant\":{}}}",
                            self.place(body, **place),
                            variant_index.as_usize()
                        ));
                    }
                    _ => {}
                }
            }
            let term = data.terminator();
            let tsp = term.source_info.span;
            let tj = match &term.kind {
                TerminatorKind::Goto { target } => format!("{{\"k\":\"goto\",\"t\":{}}}", target.as_usize()),
                TerminatorKind::SwitchInt { discr, targets } => {
                    let mut ts = Vec::new();
                    for (v, t) in targets.iter() {
                        ts.push(format!("[{},{}]", js(&v.to_string()), t.as_usize()));
                    }
                    format!(
                        "{{\"k\":\"switch\",\"discr\":{},\"dty\":{},\"targets\":{},\"otherwise\":{},\"ex\":{}}}",
                        self.operand(owner, body, discr),
                        js(&self.ty_s(discr.ty(&body.local_decls, tcx))),
                        jlist(&ts),
                        targets.otherwise().as_usize(),
                        jlist(&self.expn_list(tsp))
                    )
                }
                TerminatorKind::Return => "{\"k\":\"return\"}".to_string(),
                TerminatorKind::Unreachable => "{\"k\":\"unreachable\"}".to_string(),
                TerminatorKind::UnwindResume => "{\"k\":\"resume\"}".to_string(),
                TerminatorKind::UnwindTerminate(_) => "{\"k\":\"terminate\"}".to_string(),
                TerminatorKind::Drop { place, target, unwind, .. } => format!(
                    "{{\"k\":\"drop\",\"place\":{},\"ty\":{},\"t\":{},\"uw\":{}}}",
                    self.place(body, *place),
                    js(&self.ty_s(place.ty(&body.local_decls, tcx).ty)),
                    target.as_usize(),
                    uw(unwind)
                ),
                TerminatorKind::Call { func, args, destination, target, unwind, .. } => {
                    let fty = func.ty(&body.local_decls, tcx);
                    let callee = match fty.kind() {
                        ty::FnDef(d, a) => self.callee_json(owner, *d, a),
                        _ => format!(
                            "{{\"path\":\"<indirect>\",\"id\":\"<indirect>\",\"full\":{},\"kind\":\"indirect\",\"op\":{}}}",
                            js(&self.ty_s(fty)),
                            self.operand(owner, body, func)
                        ),
                    };
                    let argsj: Vec<String> =
                        args.iter().map(|a| self.operand(owner, body, &a.node)).collect();
                    let atys: Vec<String> = args
                        .iter()
                        .map(|a| js(&self.ty_s(a.node.ty(&body.local_decls, tcx))))
                        .collect();
                    format!(
                        "{{\"k\":\"call\",\"callee\":{},\"args\":{},\"atys\":{},\"dest\":{},\"t\":{},\"uw\":{},\"sp\":{}}}",
                        callee,
                        jlist(&argsj),
                        jlist(&atys),
                        self.place(body, *destination),
                        target.map(|t| t.as_usize() as i64).unwrap_or(-1),
                        uw(unwind),
                        self.span_json(tsp)
                    )
                }
                TerminatorKind::TailCall { func, args, .. } => {
                    let fty = func.ty(&body.local_decls, tcx);
                    let callee = match fty.kind() {
                        ty::FnDef(d, a) => self.callee_json(owner, *d, a),
                        _ => "{\"path\":\"<indirect>\",\"id\":\"<indirect>\",\"kind\":\"indirect\"}".to_string(),
                    };
                    let argsj: Vec<String> =
                        args.iter().map(|a| self.operand(owner, body, &a.node)).collect();
                    format!(
                        "{{\"k\":\"call\",\"tail\":true,\"callee\":{},\"args\":{},\"atys\":[],\"dest\":{{\"l\":0,\"p\":[]}},\"t\":-1,\"uw\":-1,\"sp\":{}}}",
                        callee,
                        jlist(&argsj),
                        self.span_json(tsp)
                    )
                }
                TerminatorKind::Assert { cond, expected, msg, target, unwind } => {
                    let (kind, ops): (String, Vec<String>) = match &**msg {
                        AssertKind::BoundsCheck { len, index } => (
                            "BoundsCheck".into(),
                            vec![self.operand(owner, body, len), self.operand(owner, body, index)],
                        ),
                        AssertKind::Overflow(op, a, b) => (
                            format!("Overflow:{:?}", op),
                            vec![self.operand(owner, body, a), self.operand(owner, body, b)],
                        ),
                        AssertKind::OverflowNeg(a) => ("OverflowNeg".into(), vec![self.operand(owner, body, a)]),
                        AssertKind::DivisionByZero(a) => ("DivisionByZero".into(), vec![self.operand(owner, body, a)]),
                        AssertKind::RemainderByZero(a) => ("RemainderByZero".into(), vec![self.operand(owner, body, a)]),
                        other => (format!("Other:{:?}", std::mem::discriminant(other)), vec![]),
                    };
                    let oty = match &**msg {
                        AssertKind::Overflow(_, a, _) => self.ty_s(a.ty(&body.local_decls, tcx)),
                        AssertKind::BoundsCheck { .. } => "usize".to_string(),
                        AssertKind::OverflowNeg(a) | AssertKind::DivisionByZero(a) | AssertKind::RemainderByZero(a) => {
                            self.ty_s(a.ty(&body.local_decls, tcx))
                        }
                        _ => String::new(),
                    };
                    format!(
                        "{{\"k\":\"assert\",\"kind\":{},\"oty\":{},\"ops\":{},\"cond\":{},\"expected\":{},\"t\":{},\"uw\":{},\"sp\":{}}}",
                        js(&kind),
                        js(&oty),
                        jlist(&ops),
                        self.operand(owner, body, cond),
                        expected,
                        target.as_usize(),
                        uw(unwind),
                        self.span_json(tsp)
                    )
                }
                TerminatorKind::FalseEdge { real_target, .. } => {
                    format!("{{\"k\":\"goto\",\"t\":{}}}", real_target.as_usize())
                }
                TerminatorKind::FalseUnwind { real_target, .. } => {
                    format!("{{\"k\":\"goto\",\"t\":{}}}", real_target.as_usize())
                }
                other => format!("{{\"k\":\"other\",\"d\":{}}}", js(&format!("{:?}", std::mem::discriminant(other)))),
            };
            blocks.push(format!(
                "{{\"stmts\":{},\"term\":{},\"cleanup\":{},\"ln\":{}}}",
                jlist(&stmts),
                tj,
                data.is_cleanup,
                self.line_of(tsp)
            ));
        }
        let mut locals = Vec::new();
        for (_l, d) in body.local_decls.iter_enumerated() {
            locals.push(js(&self.ty_s(d.ty)));
        }
        let mut names = Vec::new();
        for vdi in &body.var_debug_info {
            if let VarDebugInfoContents::Place(p) = &vdi.value {
                names.push(format!(
                    "{{\"name\":{},\"place\":{}}}",
                    js(vdi.name.as_str()),
                    self.place(body, *p)
                ));
            }
        }
        format!(
            "\"argc\":{},\"locals\":{},\"names\":{},\"blocks\":{}",
            body.arg_count,
            jlist(&locals),
            jlist(&names),
            jlist(&blocks)
        )
    }
}

fn uw(u: &UnwindAction) -> i64 {
    match u {
        UnwindAction::Cleanup(b) => b.as_usize() as i64,
        _ => -1,
    }
}

#[allow(dead_code)]
fn _unused(_: BasicBlock, _: Local, _: ConstValue) {}

fn analyze<'tcx>(tcx: TyCtxt<'tcx>, dir: &str, name: &str) {
    let cx = Cx { tcx };
    let mut out = String::new();
    let crate_types: Vec<String> =
        tcx.crate_types().iter().map(|c| js(&format!("{:?}", c))).collect();
    let is_test = tcx.sess.opts.test;
    let _ = writeln!(
        out,
        "{{\"k\":\"crate\",\"name\":{},\"types\":{},\"test\":{}}}",
        js(name),
        jlist(&crate_types),
        is_test
    );

    let mut nfn = 0usize;
    for ldid in tcx.iter_local_def_id() {
        let did = ldid.to_def_id();
        let kind = tcx.def_kind(did);
        match kind {
            DefKind::Struct | DefKind::Enum | DefKind::Union => {
                let adt = tcx.adt_def(did);
                let mut vars = Vec::new();
                let discrs: Vec<String> = if adt.is_enum() {
                    adt.discriminants(tcx).map(|(_, d)| d.val.to_string()).collect()
                } else {
                    vec![]
                };
                for (i, v) in adt.variants().iter().enumerate() {
                    let mut fs = Vec::new();
                    for f in v.fields.iter() {
                        let fty = tcx.type_of(f.did).instantiate_identity().skip_normalization();
                        fs.push(format!(
                            "{{\"name\":{},\"ty\":{},\"vis\":{}}}",
                            js(f.name.as_str()),
                            js(&cx.ty_s(fty)),
                            js(&format!("{:?}", f.vis))
                        ));
                    }
                    vars.push(format!(
                        "{{\"name\":{},\"discr\":{},\"fields\":{}}}",
                        js(v.name.as_str()),
                        js(discrs.get(i).map(|s| s.as_str()).unwrap_or("")),
                        jlist(&fs)
                    ));
                }
                let _ = writeln!(
                    out,
                    "{{\"k\":\"adt\",\"path\":{},\"id\":{},\"kind\":{},\"variants\":{},\"sp\":{}}}",
                    js(&cx.path(did)),
                    js(&cx.id(did)),
                    js(&format!("{:?}", kind)),
                    jlist(&vars),
                    js(&cx.span_s(tcx.def_span(did)))
                );
            }
            DefKind::Impl { of_trait } => {
                let self_ty = tcx.type_of(did).instantiate_identity().skip_normalization();
                let mut items = Vec::new();
                for it in tcx.associated_items(did).in_definition_order() {
                    let ti = it.trait_item_def_id();
                    items.push(format!(
                        "{{\"impl_item\":{},\"impl_id\":{},\"trait_item\":{}}}",
                        js(&cx.path(it.def_id)),
                        js(&cx.id(it.def_id)),
                        ti.map(|t| js(&cx.path(t))).unwrap_or("null".to_string())
                    ));
                }
                let tr = if of_trait {
                    let tref = tcx.impl_trait_ref(did).instantiate_identity().skip_normalization();
                    js(&pp!(format!("{}", tref.print_only_trait_path())))
                } else {
                    "null".to_string()
                };
                let trd = if of_trait {
                    let tref = tcx.impl_trait_ref(did).instantiate_identity().skip_normalization();
                    js(&cx.path(tref.def_id))
                } else {
                    "null".to_string()
                };
                let _ = writeln!(
                    out,
                    "{{\"k\":\"impl\",\"id\":{},\"trait\":{},\"trait_def\":{},\"self\":{},\"items\":{},\"sp\":{}}}",
                    js(&cx.id(did)),
                    tr,
                    trd,
                    js(&cx.ty_s(self_ty)),
                    jlist(&items),
                    cx.span_json(tcx.def_span(did))
                );
            }
            DefKind::Const { .. } | DefKind::AssocConst { .. } | DefKind::Static { .. } => {
                let ty = tcx.type_of(did).instantiate_identity().skip_normalization();
                let mut val = "null".to_string();
                let generics = tcx.generics_of(did);
                if generics.count() == 0 && generics.parent_count == 0 || !matches!(kind, DefKind::AssocConst { .. }) {
                    if !matches!(kind, DefKind::Static { .. }) && tcx.generics_of(did).own_requires_monomorphization() == false && generics.parent_count == 0 {
                        if let Ok(cv) = tcx.const_eval_poly(did) {
                            if ty.is_integral() || ty.is_bool() {
                                if let Some(si) = cv.try_to_scalar_int() {
                                    let size = si.size();
                                    let v = if ty.is_signed() {
                                        si.to_int(size).to_string()
                                    } else {
                                        si.to_uint(size).to_string()
                                    };
                                    val = js(&v);
                                }
                            } else if let ty::Ref(_, inner, _) = ty.kind() {
                                if inner.is_str() {
                                    if let Some(b) = cv.try_get_slice_bytes_for_diagnostics(tcx) {
                                        val = js(&String::from_utf8_lossy(b));
                                    }
                                }
                            }
                        }
                    }
                }
                let _ = writeln!(
                    out,
                    "{{\"k\":\"const\",\"path\":{},\"id\":{},\"ty\":{},\"val\":{},\"sp\":{}}}",
                    js(&cx.path(did)),
                    js(&cx.id(did)),
                    js(&cx.ty_s(ty)),
                    val,
                    js(&cx.span_s(tcx.def_span(did)))
                );
            }
            DefKind::Fn | DefKind::AssocFn | DefKind::Closure => {
                if !tcx.is_mir_available(did) {
                    continue;
                }
                if tcx.hir_body_const_context(ldid).is_some() && !matches!(kind, DefKind::Fn | DefKind::AssocFn) {
                    continue;
                }
                if tcx.is_coroutine(did) {
                    continue;
                }
                emit_fn(&cx, ldid, kind, &mut out);
                nfn += 1;
            }
            _ => {}
        }
    }
    // unsafe blocks: scan THIR-free — use HIR bodies
    emit_unsafe(&cx, &mut out);
    let _ = writeln!(out, "{{\"k\":\"end\",\"fns\":{}}}", nfn);

    let sid = tcx.stable_crate_id(LOCAL_CRATE).as_u64();
    let path = format!("{}/{}-{:016x}.jsonl", dir, name, sid);
    let tmp = format!("{}.tmp{}", path, std::process::id());
    std::fs::write(&tmp, out).expect("airlint: cannot write facts");
    std::fs::rename(&tmp, &path).expect("airlint: cannot rename facts");
}

fn emit_fn<'tcx>(cx: &Cx<'tcx>, ldid: LocalDefId, kind: DefKind, out: &mut String) {
    let tcx = cx.tcx;
    let did = ldid.to_def_id();
    let body: &Body<'tcx> = if tcx.is_const_fn(did) && false {
        tcx.mir_for_ctfe(did)
    } else {
        tcx.optimized_mir(did)
    };
    let vis = if matches!(kind, DefKind::Fn | DefKind::AssocFn) {
        format!("{:?}", tcx.visibility(did))
    } else {
        "closure".to_string()
    };
    let sp = tcx.def_span(did);
    let full_sp = body.span;
    let parent_impl = {
        let p = tcx.parent(did);
        if matches!(tcx.def_kind(p), DefKind::Impl { .. }) {
            js(&cx.id(p))
        } else {
            "null".to_string()
        }
    };
    let _ = writeln!(
        out,
        "{{\"k\":\"fn\",\"path\":{},\"id\":{},\"kind\":{},\"vis\":{},\"impl\":{},\"sp\":{},\"body_sp\":{},{}}}",
        js(&cx.path(did)),
        js(&cx.id(did)),
        js(&format!("{:?}", kind)),
        js(&vis),
        parent_impl,
        cx.span_json(sp),
        js(&cx.span_s(full_sp)),
        cx.body_json(did, body)
    );
}

fn emit_unsafe<'tcx>(cx: &Cx<'tcx>, out: &mut String) {
    use rustc_hir::intravisit::{self, Visitor};
    struct V<'a, 'tcx> {
        cx: &'a Cx<'tcx>,
        out: &'a mut String,
    }
    impl<'a, 'tcx> Visitor<'tcx> for V<'a, 'tcx> {
        type NestedFilter = rustc_middle::hir::nested_filter::OnlyBodies;
        fn maybe_tcx(&mut self) -> Self::MaybeTyCtxt {
            self.cx.tcx
        }
        fn visit_block(&mut self, b: &'tcx rustc_hir::Block<'tcx>) {
            if let rustc_hir::BlockCheckMode::UnsafeBlock(src) = b.rules {
                let user = matches!(src, rustc_hir::UnsafeSource::UserProvided);
                let owner = self.cx.tcx.hir_get_parent_item(b.hir_id).to_def_id();
                let _ = writeln!(
                    self.out,
                    "{{\"k\":\"unsafe\",\"user\":{},\"in\":{},\"sp\":{}}}",
                    user,
                    js(&self.cx.path(owner)),
                    self.cx.span_json(b.span)
                );
            }
            intravisit::walk_block(self, b);
        }
    }
    let mut v = V { cx, out };
    cx.tcx.hir_visit_all_item_likes_in_crate(&mut v);
}
